#!/bin/sh
# Offline setup: warm the Kani and native build caches of the *dependency* crates (they do not depend on
# /repo's sources) and start Verus once.  Everything lives under /verif/.cache (git-ignored).
set -e
cd "$(dirname "$0")"
export CARGO_NET_OFFLINE=true
mkdir -p .cache /var/tmp/ruschm-verif
S=/var/tmp/ruschm-verif/setup-snap
rm -rf "$S"; mkdir -p "$S"
rsync -a --exclude /target --exclude /.git /repo/ "$S"/
mkdir -p "$S/.cargo"; printf '[net]\noffline = true\n' > "$S/.cargo/config.toml"
( cd "$S" && CARGO_TARGET_DIR=/verif/.cache/kani-target cargo kani --only-codegen -Z stubbing >/dev/null 2>&1 || true )
( cd "$S" && CARGO_TARGET_DIR=/verif/.cache/native-target RUSTFLAGS="--cfg verif_replay -A warnings" cargo test --offline --lib --no-run >/dev/null 2>&1 || true )
( cd "$S" && CARGO_TARGET_DIR=/verif/.cache/native-target RUSTFLAGS="--cfg verif_replay -A warnings" cargo test --offline --release --lib --no-run >/dev/null 2>&1 || true )
rm -rf "$S"
# first Verus start is slow (5-9 s); do it now
T=/var/tmp/ruschm-verif/setup-verus; mkdir -p "$T"
printf 'use vstd::prelude::*;\nverus!{ proof fn t() ensures 1 + 1 == 2int {} }\nfn main(){}\n' > "$T/t.rs"
( cd "$T" && verus t.rs >/dev/null 2>&1 || true )
rm -rf "$T"
echo "setup done"
