// Native (cfg verif_replay) helpers for C18 -- NOT proof.  (a) witness search: when the Verus
// obligation of check_bracket_closed fails, look for a concrete text on which the real function and
// the executable twin of the spec state machine disagree (replay on the real code).
// (b) oracle sanity check: the spec state machine is a transcription of the reader; compare it
// with the real Lexer on every short text (a disagreement means MY SPEC is wrong => exit 2).
use crate::parser::{Lexer, TokenData};

#[derive(Clone, Copy, PartialEq, Debug)]
enum Mode { Code, Comment, Str, StrEsc, Bar, Hash, CharLit }

fn spec_step(d: i64, m: Mode, c: char) -> (i64, Mode) {
    match m {
        Mode::Code => match c {
            '(' => (d + 1, Mode::Code),
            ')' => (d - 1, Mode::Code),
            ';' => (d, Mode::Comment),
            '"' => (d, Mode::Str),
            '|' => (d, Mode::Bar),
            '#' => (d, Mode::Hash),
            _ => (d, Mode::Code),
        },
        Mode::Comment => if c == '\n' || c == '\r' { (d, Mode::Code) } else { (d, Mode::Comment) },
        Mode::Str => if c == '"' { (d, Mode::Code) } else if c == '\\' { (d, Mode::StrEsc) } else { (d, Mode::Str) },
        Mode::StrEsc => (d, Mode::Str),
        Mode::Bar => if c == '|' { (d, Mode::Code) } else { (d, Mode::Bar) },
        Mode::Hash => if c == '(' { (d + 1, Mode::Code) } else if c == '\\' { (d, Mode::CharLit) } else { (d, Mode::Code) },
        Mode::CharLit => (d, Mode::Code),
    }
}
fn spec_run(s: &str) -> (i64, Mode) {
    s.chars().fold((0, Mode::Code), |(d, m), c| spec_step(d, m, c))
}
fn spec_complete(s: &str) -> bool { spec_run(s).0 <= 0 }

const ALPHABET: [char; 12] = ['(', ')', '"', '\\', ';', '#', '|', 'a', '1', ' ', '\n', '\r'];

fn for_each_string(max_len: usize, f: &mut dyn FnMut(&str)) {
    let mut idx: Vec<usize> = Vec::new();
    loop {
        let s: String = idx.iter().map(|&i| ALPHABET[i]).collect();
        f(&s);
        // next
        let mut k = idx.len();
        loop {
            if k == 0 {
                if idx.len() == max_len { return; }
                idx = vec![0; idx.len() + 1];
                break;
            }
            k -= 1;
            if idx[k] + 1 < ALPHABET.len() { idx[k] += 1; for j in k + 1..idx.len() { idx[j] = 0; } break; }
        }
    }
}

#[test]
fn verif_native_complete_witness() {
    let mut n = 0u64;
    let mut bad: Vec<String> = Vec::new();
    for_each_string(6, &mut |s| {
        n += 1;
        if check_bracket_closed(s.chars()) != spec_complete(s) && bad.len() < 5 {
            bad.push(format!("{:?}: real={} spec={}", s, check_bracket_closed(s.chars()), spec_complete(s)));
        }
    });
    if bad.is_empty() {
        println!("VERIF-NATIVE: ok {} strings (length <= 6 over {:?}): real check_bracket_closed == spec", n, ALPHABET);
    } else {
        println!("VERIF-NATIVE: disagree {}", bad.join(" ; "));
    }
}

#[test]
fn verif_native_complete_oracle() {
    // depth as the real reader sees it: +1 per LeftParen / VecConsIntro / ByteVecConsIntro, -1 per RightParen;
    // texts the lexer rejects are skipped (any verdict is acceptable for them).
    let mut n = 0u64;
    let mut lexed = 0u64;
    let mut bad: Vec<String> = Vec::new();
    for_each_string(6, &mut |s| {
        n += 1;
        let mut depth: i64 = 0;
        let mut ok = true;
        for t in Lexer::from_char_stream(s.chars()) {
            match t {
                Ok(tok) => match tok.data {
                    TokenData::LeftParen | TokenData::VecConsIntro | TokenData::ByteVecConsIntro => depth += 1,
                    TokenData::RightParen => depth -= 1,
                    _ => (),
                },
                Err(_) => { ok = false; break; }
            }
        }
        if ok {
            lexed += 1;
            if depth != spec_run(s).0 && bad.len() < 5 {
                bad.push(format!("{:?}: lexer depth={} spec depth={}", s, depth, spec_run(s).0));
            }
        }
    });
    if bad.is_empty() {
        println!("VERIF-NATIVE: ok {} strings, {} accepted by the real Lexer: token depth == spec depth", n, lexed);
    } else {
        println!("VERIF-NATIVE: disagree {}", bad.join(" ; "));
    }
}
