// Native (cfg verif_replay) witness search for C15 / C08 / Interpreter::eval_expression -- NOT proof.
// When the Verus obligation on eval_expression fails, look for a concrete program that shows it on the real
// interpreter: a call whose operator is not a procedure must stop with TypeMisMatch located at the stamp the real
// Lexer gives the OPERATOR token; reading an unbound variable must stop with UnboundedSymbol located at the stamp of
// the IDENTIFIER token; an `if` evaluates only the selected arm; an operand's error is passed on.
use crate::error::ErrorData;
use crate::interpreter::error::LogicError;
use crate::parser::{Lexer, TokenData};

fn stamp_of(text: &str, ident: &str) -> Option<[u32; 2]> {
    for tok in Lexer::from_char_stream(text.chars()) {
        if let Ok(t) = tok {
            if let TokenData::Identifier(name) = &t.data {
                if name == ident { return t.location; }
            }
        }
    }
    None
}

fn run(program: &str) -> std::result::Result<(String, Option<[u32; 2]>), String> {
    let p = program.to_string();
    let r = std::panic::catch_unwind(move || {
        let mut it = Interpreter::<f32>::new_with_stdlib();
        match it.eval(p.chars()) {
            Ok(v) => (format!("value {}", v.map(|v| v.to_string()).unwrap_or_default()), None),
            Err(e) => (match e.data {
                ErrorData::Logic(LogicError::TypeMisMatch(..)) => "TypeMisMatch".to_string(),
                ErrorData::Logic(LogicError::UnboundedSymbol(..)) => "UnboundedSymbol".to_string(),
                other => format!("other error: {}", other),
            }, e.location),
        }
    });
    r.map_err(|_| "PANIC".to_string())
}

#[test]
fn verif_native_eval_location_witness() { search(true) }

/// C08: the KIND of the error only (where it is located is C15)
#[test]
fn verif_native_eval_kind_witness() { search(false) }

fn search(check_loc: bool) {
    std::panic::set_hook(Box::new(|_| {}));
    let mut n = 0;
    let mut bad: Vec<String> = Vec::new();
    // (the last two leave the faulting form starting in the middle of a line: its continuation lines have SMALLER columns)
    let prefixes = ["", "(define other 1)\n", "; a comment\n\n(define other\n   1)\n", "      ", "(define other 1)   "];
    let gaps = ["", " ", "\n", "  \n   ", " ; c\n ", "\n\n\t"];
    // contexts in which the faulting expression FAULT is evaluated by eval_expression (never in tail position of a user procedure)
    let contexts = ["FAULT", "(car (cons FAULT 2))", "(define r FAULT)", "(if FAULT 1 2)", "(vector 1 FAULT)"];
    for prefix in prefixes.iter() {
        for g1 in gaps.iter() {
            for g2 in gaps[1..].iter() {
                for ctx in contexts.iter() {
                    // non-procedure operator: zzq is 5
                    let fault = format!("({}zzq{}1 2)", g1, g2);
                    let program = format!("{}(define zzq 5)\n{}", prefix, ctx.replace("FAULT", &fault));
                    n += 1;
                    // the operator is the LAST zzq token of the text
                    let mut want = None;
                    for tok in Lexer::from_char_stream(program.chars()) {
                        if let Ok(t) = tok { if let TokenData::Identifier(name) = &t.data { if name == "zzq" { want = t.location; } } }
                    }
                    match run(&program) {
                        Ok((kind, loc)) if kind == "TypeMisMatch" && (!check_loc || (loc == want && want.is_some())) => {}
                        got => if bad.len() < 4 {
                            bad.push(format!("{:?} -> {:?}, expected TypeMisMatch{}", program, got, if check_loc { format!(" at the operator's stamp {:?}", want) } else { String::new() }));
                        },
                    }
                    // unbound variable read: qqz is not defined anywhere
                    let fault = format!("(+ {}1{}qqz)", g1, g2);
                    let program = format!("{}{}", prefix, ctx.replace("FAULT", &fault));
                    n += 1;
                    let want = stamp_of(&program, "qqz");
                    match run(&program) {
                        Ok((kind, loc)) if kind == "UnboundedSymbol" && (!check_loc || (loc == want && want.is_some())) => {}
                        got => if bad.len() < 4 {
                            bad.push(format!("{:?} -> {:?}, expected UnboundedSymbol{}", program, got, if check_loc { format!(" at the identifier's stamp {:?}", want) } else { String::new() }));
                        },
                    }
                }
            }
        }
    }
    // control skeleton: only the selected arm of an `if` is evaluated; only #f is false; an operand's error is the call's error
    let fixed: [(&str, &str); 31] = [
        ("(car (cons (if #t 1 (car 5)) 2))", "value 1"),
        ("(car (cons (if #f (car 5) 2) 2))", "value 2"),
        ("(car (cons (if 0 1 2) 2))", "value 1"),
        ("(car (cons (if '() 1 2) 2))", "value 1"),
        ("(car (cons (if #f 1) 2))", "value Void"),
        ("(define x 1) (car (cons (set! x 2) x))", "value Void"),
        ("(vector 1 (nope 2) 3)", "UnboundedSymbol"),
        ("(define y 1) (vector (set! y 5) y)", "value #(<void> 5)"),
        // the operator of an `if` test is looked up like any other, also when it is spelled like a builtin
        ("(define (f not) (car (cons (if (not 1) 2 3) 0))) (f 5)", "TypeMisMatch"),
        ("(define (f car) (vector (if (car 1) 2 3))) (f 5)", "TypeMisMatch"),
        ("(define (f x) (car (cons (if (nope x) 2 3) 0))) (f 5)", "UnboundedSymbol"),
        ("(define (f not) (car (cons (if (not 1) 2 3) 0))) (f (lambda (v) (car v)))", "TypeMisMatch"),
        // a wrong-typed argument to a numeric / comparison builtin is a type error for EVERY argument count, also one
        ("(< 'a)", "TypeMisMatch"), ("(= \"x\")", "TypeMisMatch"), ("(>= 'a)", "TypeMisMatch"), ("(< 1 'a)", "TypeMisMatch"), ("(< 'a 1)", "TypeMisMatch"),
        ("(< 1 2 'a)", "TypeMisMatch"), ("(< 2 1 'a)", "TypeMisMatch"), ("(= 1 2 \"x\")", "TypeMisMatch"), ("(= 1 1 \"x\")", "TypeMisMatch"),
        ("(+ 'a)", "TypeMisMatch"), ("(* 'a)", "TypeMisMatch"), ("(- 'a)", "TypeMisMatch"), ("(+ 1 'a)", "TypeMisMatch"), ("(- 1 2 'a)", "TypeMisMatch"),
        ("(max 'a)", "TypeMisMatch"), ("(min 1 'a)", "TypeMisMatch"), ("(abs 'a)", "TypeMisMatch"),
        ("(define (g x) (<= x)) (g 'a)", "TypeMisMatch"), ("(apply < '(a))", "TypeMisMatch"),
    ];
    // (these say nothing about locations: they are not part of the location witness)
    for (program, want) in fixed.iter() {
        if check_loc { break; }
        n += 1;
        match run(program) {
            Ok((got, _)) if got == *want || (*want == "value #(<void> 5)" && got.starts_with("value #(")) => {}
            got => if bad.len() < 6 { bad.push(format!("{:?} -> {:?}, expected {:?}", program, got, want)); },
        }
    }
    if bad.is_empty() {
        println!("VERIF-NATIVE: ok {} programs: non-procedure / unbound-variable errors have their kind{}; if / operand errors as specified", n, if check_loc { " and carry the stamp of the offending token" } else { "" });
    } else {
        println!("VERIF-NATIVE: disagree {}", bad.join(" ; "));
    }
}

#[test]
fn verif_native_template_location_known() {
    // KNOWN FINDING template-location: an error inside the expansion of a derived form (let, cond, ...) is located at a line
    // and column of the bundled grammar.sld, not in the user's text
    let program = "(define y 1)\n\n\n\n\n\n\n\n\n\n\n\n(let ((x 5))\n  (x 1))\n";
    let got = run(program);
    let inside = |loc: Option<[u32; 2]>| loc.map(|l| l[0] >= 13 && l[0] <= 14).unwrap_or(false);
    match got {
        Ok((kind, loc)) if inside(loc) => println!("VERIF-NATIVE: ok a {} error inside a top-level let is located at {:?}, inside the form (lines 13-14)", kind, loc),
        other => println!("VERIF-NATIVE: disagree a failing call inside a top-level let on lines 13-14 of the program is reported as {:?}: the location is that of the let TEMPLATE in the bundled grammar.sld", other),
    }
}

#[test]
fn verif_native_callee_location_known() {
    // KNOWN FINDING callee-body-location: a fault inside the body of a procedure defined in an EARLIER top-level form is located
    // at the offending identifier in THAT form, not inside the top-level form whose evaluation failed (the call)
    let program = "(define (f) nope)\n(f)";
    match run(program) {
        Ok((kind, loc)) if loc.map(|l| l[0] == 2).unwrap_or(false) => println!("VERIF-NATIVE: ok the {} error of (f) on line 2 is located at {:?}, inside the failing form", kind, loc),
        other => println!("VERIF-NATIVE: disagree (define (f) nope) on line 1, the failing form (f) on line 2: the error is reported as {:?}, i.e. inside the definition, another top-level form", other),
    }
}
