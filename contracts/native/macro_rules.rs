// Native (cfg verif_replay) witness search for C04 / syntax-rules -- NOT proof.
// When an obligation of units macro_transform / macro_match fails (or a unit cannot be built), look for a concrete
// macro definition and use that shows it on the real interpreter.  Every case is (definition, use, expected):
// first matching rule in textual order; literal identifiers match only themselves; _ and pattern variables match any
// form; literal data match only equal data; a use that matches no rule is a syntax error.
use crate::error::ErrorData;

fn run(program: &str) -> std::result::Result<String, String> {
    let p = program.to_string();
    std::panic::catch_unwind(move || {
        let mut it = Interpreter::<f32>::new_with_stdlib();
        match it.eval(p.chars()) {
            Ok(v) => format!("value {}", v.map(|v| v.to_string()).unwrap_or_default()),
            Err(e) => match e.data {
                ErrorData::Syntax(_) => "SyntaxError".to_string(),
                other => format!("other error: {}", other),
            },
        }
    })
    .map_err(|_| "PANIC".to_string())
}

// ---- BOUNDED enumeration (stated bound): every ellipsis-free pattern of the class below against every datum of the class below,
// compared with an independent reference matcher written from the property's second sentence ----
#[derive(Clone, Debug, PartialEq)]
enum Pt { Var(&'static str), Lit, Wild, One, List(Vec<Pt>) }               // a b | the literal identifier x | _ | the datum 1 | ( ... )
#[derive(Clone, Debug, PartialEq)]
enum Dt { Sym(&'static str), Num(i32), List(Vec<Dt>, Option<Box<Dt>>) }    // x y a | 1 2 | ( ... ) or ( ... . tail)

fn pt_text(p: &Pt) -> String {
    match p {
        Pt::Var(v) => v.to_string(), Pt::Lit => "x".to_string(), Pt::Wild => "_".to_string(), Pt::One => "1".to_string(),
        Pt::List(items) => format!("({})", items.iter().map(pt_text).collect::<Vec<_>>().join(" ")),
    }
}
fn dt_text(d: &Dt) -> String {
    match d {
        Dt::Sym(s) => s.to_string(), Dt::Num(k) => k.to_string(),
        Dt::List(items, None) => format!("({})", items.iter().map(dt_text).collect::<Vec<_>>().join(" ")),
        Dt::List(items, Some(t)) => format!("({} . {})", items.iter().map(dt_text).collect::<Vec<_>>().join(" "), dt_text(t)),
    }
}
// pattern variables and _ match any form, the literal identifier only itself, a literal datum only an equal datum, a list
// pattern a proper list of the same length element-wise
fn ref_match(p: &Pt, d: &Dt, binds: &mut Vec<(&'static str, Dt)>) -> bool {
    match (p, d) {
        (Pt::Var(v), _) => { binds.push((v, d.clone())); true }
        (Pt::Wild, _) => true,
        (Pt::Lit, Dt::Sym("x")) => true,
        (Pt::Lit, _) => false,
        (Pt::One, Dt::Num(1)) => true,
        (Pt::One, _) => false,
        (Pt::List(ps), Dt::List(ds, None)) => ps.len() == ds.len() && ps.iter().zip(ds.iter()).all(|(p, d)| ref_match(p, d, binds)),
        (Pt::List(_), _) => false,
    }
}
fn pt_vars(p: &Pt, out: &mut Vec<&'static str>) {
    match p { Pt::Var(v) => out.push(v), Pt::List(items) => items.iter().for_each(|i| pt_vars(i, out)), _ => {} }
}

#[test]
fn verif_native_macro_witness() {
    std::panic::set_hook(Box::new(|_| {}));
    let mut n = 0;
    let mut bad: Vec<String> = Vec::new();
    let cases: [(&str, &str, &str); 34] = [
        // first matching rule, in textual order
        ("(define-syntax m (syntax-rules () ((m x) 'one) ((m x y) 'two) ((m x ...) 'many)))", "(m 1)", "value one"),
        ("(define-syntax m (syntax-rules () ((m x) 'one) ((m x y) 'two) ((m x ...) 'many)))", "(m 1 2)", "value two"),
        ("(define-syntax m (syntax-rules () ((m x) 'one) ((m x y) 'two) ((m x ...) 'many)))", "(m 1 2 3)", "value many"),
        ("(define-syntax m (syntax-rules () ((m x ...) 'many) ((m x) 'one)))", "(m 1)", "value many"),
        ("(define-syntax m (syntax-rules () ((m 1) 'first) ((m x) 'second)))", "(m 1)", "value first"),
        ("(define-syntax m (syntax-rules () ((m 1) 'first) ((m x) 'second)))", "(m 2)", "value second"),
        // bindings of an earlier rule that failed do not leak into a later rule
        ("(define-syntax m (syntax-rules () ((m a 1) a) ((m b 2) 'second)))", "(m 5 2)", "value second"),
        ("(define-syntax m (syntax-rules () ((m a 1) a) ((m b 2) 'a)))", "(m 5 2)", "value a"),
        // no rule matches: a syntax error
        ("(define-syntax m (syntax-rules () ((m x) 'one)))", "(m 1 2)", "SyntaxError"),
        ("(define-syntax m (syntax-rules () ((m 1) 'one)))", "(m 2)", "SyntaxError"),
        ("(define-syntax m (syntax-rules (a) ((m a) 'one)))", "(m b)", "SyntaxError"),
        // literal identifiers match only themselves
        ("(define-syntax m (syntax-rules (a b) ((m a) 'first) ((m b) 'second)))", "(m b)", "value second"),
        ("(define-syntax m (syntax-rules (a b) ((m a) 'first) ((m b) 'second)))", "(m a)", "value first"),
        ("(define-syntax m (syntax-rules (a b) ((m a x) x)))", "(m b 7)", "SyntaxError"),
        ("(define-syntax m (syntax-rules (a b) ((m (a x)) 'inner-a) ((m (b x)) 'inner-b)))", "(m (b 1))", "value inner-b"),
        ("(define-syntax m (syntax-rules (a) ((m a) 'lit) ((m x) 'var)))", "(m 5)", "value var"),
        // ... also the symbol that is spelled like one of the macro's literals
        ("(define-syntax m (syntax-rules (x) ((m a) (quote (got a)))))", "(m x)", "value (got x)"),
        ("(define-syntax m (syntax-rules (x) ((m a) (quote (first a))) ((m _) (quote second))))", "(m x)", "value (first x)"),
        ("(define-syntax m (syntax-rules (x) ((m a ...) (quote (a ...)))))", "(m 1 x 2)", "value (1 x 2)"),
        // sub-lists are matched element-wise INCLUDING their tail: a proper-list pattern does not match a datum with a dotted tail
        // (patterns with a dotted tail are outside the class the property names; data with a dotted tail are not)
        // (the macro is always called m: the macro table is per thread, not per interpreter -- C19 -- and a macro named like a
        // variable of base.sld breaks the construction of every later interpreter of this test)
        ("(define-syntax m (syntax-rules () ((m (a b)) '(two a b)) ((m x) '(other x))))", "(m (1 2 . 3))", "value (other (1 2 . 3))"),
        ("(define-syntax m (syntax-rules () ((m (a b)) '(two a b)) ((m x) '(other x))))", "(m (1 2))", "value (two 1 2)"),
        ("(define-syntax m (syntax-rules () ((m (a)) 'a)))", "(m (1 . 2))", "SyntaxError"),
        ("(define-syntax m (syntax-rules () ((m a b) '(a b))))", "(m 1 2 . 3)", "SyntaxError"),
        // _ and pattern variables match any form
        ("(define-syntax m (syntax-rules () ((m _ x) x)))", "(m (1 2 3) 4)", "value 4"),
        ("(define-syntax m (syntax-rules () ((m _ x) x)))", "(m \"s\" 4)", "value 4"),
        ("(define-syntax m (syntax-rules () ((m x) 'x)))", "(m (a b))", "value (a b)"),
        // literal data match only equal data (same kind and same value)
        ("(define-syntax m (syntax-rules () ((m 1) 'int) ((m \"1\") 'str) ((m #\\1) 'chr) ((m x) 'other)))", "(m \"1\")", "value str"),
        ("(define-syntax m (syntax-rules () ((m 1) 'int) ((m \"1\") 'str) ((m #\\1) 'chr) ((m x) 'other)))", "(m #\\1)", "value chr"),
        ("(define-syntax m (syntax-rules () ((m 1) 'int) ((m \"1\") 'str) ((m #\\1) 'chr) ((m x) 'other)))", "(m 1)", "value int"),
        ("(define-syntax m (syntax-rules () ((m #t) 'true) ((m x) 'other)))", "(m \"#t\")", "value other"),
        ("(define-syntax m (syntax-rules () ((m 0) 'zero) ((m x) 'other)))", "(m -2147483648)", "value other"),
        ("(define-syntax m (syntax-rules () ((m 1/2) 'half) ((m x) 'other)))", "(m 1/3)", "value other"),
        // a vector pattern never matches a scalar, a scalar pattern never a list
        ("(define-syntax m (syntax-rules () ((m #(a b)) 'vec) ((m x) 'other)))", "(m 5)", "value other"),
        ("(define-syntax m (syntax-rules () ((m 5) 'five) ((m x) 'other)))", "(m (5))", "value other"),
    ];
    for (def, use_, want) in cases.iter() {
        n += 1;
        let program = format!("{}\n{}", def, use_);
        let got = run(&program);
        if got.as_ref().map(|g| g != want).unwrap_or(true) && bad.len() < 4 {
            bad.push(format!("{:?} then {:?} -> {:?}, expected {:?}", def, use_, got, want));
        }
    }
    // BOUNDED part.  Patterns: atoms a b x(literal) _ 1, lists of length <= 2 over atoms and over () / (atom); no variable twice.
    // Data: atoms x y a 1 2; lists of length <= 2 over atoms, (), (atom); the same with an atom as dotted tail.
    let atoms_p = vec![Pt::Var("a"), Pt::Var("b"), Pt::Lit, Pt::Wild, Pt::One];
    let mut elems_p = atoms_p.clone();
    elems_p.push(Pt::List(vec![]));
    for a in atoms_p.iter() { elems_p.push(Pt::List(vec![a.clone()])); }
    let mut patterns = atoms_p.clone();
    patterns.push(Pt::List(vec![]));
    for a in elems_p.iter() { patterns.push(Pt::List(vec![a.clone()])); }
    for a in elems_p.iter() { for b in elems_p.iter() { patterns.push(Pt::List(vec![a.clone(), b.clone()])); } }
    patterns.retain(|p| { let mut v = Vec::new(); pt_vars(p, &mut v); let mut u = v.clone(); u.sort(); u.dedup(); u.len() == v.len() });
    let atoms_d = vec![Dt::Sym("x"), Dt::Sym("y"), Dt::Sym("a"), Dt::Num(1), Dt::Num(2)];
    let mut elems_d = atoms_d.clone();
    elems_d.push(Dt::List(vec![], None));
    for a in atoms_d.iter() { elems_d.push(Dt::List(vec![a.clone()], None)); }
    let mut data = atoms_d.clone();
    data.push(Dt::List(vec![], None));
    for a in elems_d.iter() {
        data.push(Dt::List(vec![a.clone()], None));
        for t in atoms_d.iter() { data.push(Dt::List(vec![a.clone()], Some(Box::new(t.clone())))); }
    }
    for a in elems_d.iter() { for b in elems_d.iter() {
        data.push(Dt::List(vec![a.clone(), b.clone()], None));
        data.push(Dt::List(vec![a.clone(), b.clone()], Some(Box::new(Dt::Num(2)))));
    } }
    let mut m = 0u64;
    let enumerated = std::panic::catch_unwind(std::panic::AssertUnwindSafe(|| {
        let mut worst: Vec<String> = Vec::new();
        let mut it = Interpreter::<f32>::new_with_stdlib();
        let mut count = 0u64;
        for p in patterns.iter() {
            // rule 1: the pattern under test; rule 2 catches every other one-operand use
            let def = format!("(define-syntax m (syntax-rules (x) ((m {}) (quote (hit a b))) ((m other) (quote no))))", pt_text(p));
            if it.eval(def.chars()).is_err() { worst.push(format!("{:?} is rejected", def)); continue; }
            for d in data.iter() {
                count += 1;
                let mut binds = Vec::new();
                let want = if ref_match(p, d, &mut binds) {
                    let get = |v: &str| binds.iter().find(|(n, _)| *n == v).map(|(_, d)| dt_text(d)).unwrap_or(v.to_string());
                    format!("(hit {} {})", get("a"), get("b"))
                } else { "no".to_string() };
                let use_ = format!("(m {})", dt_text(d));
                let got = match it.eval(use_.chars()) { Ok(v) => v.map(|v| v.to_string()).unwrap_or_default(), Err(e) => format!("error {}", e) };
                if got != want && worst.len() < 4 { worst.push(format!("{:?} then {:?} -> {:?}, the reference matcher gives {:?}", def, use_, got, want)); }
            }
        }
        (count, worst)
    }));
    match enumerated {
        Ok((count, worst)) => { m = count; bad.extend(worst); }
        Err(_) => bad.push("the bounded enumeration PANICKED".to_string()),
    }
    if bad.is_empty() {
        println!("VERIF-NATIVE: ok {} macro uses + {} (pattern, datum) pairs of the bounded ellipsis-free class against a reference matcher: first matching rule, literals, _, variables and the no-match error behave as specified", n, m);
    } else {
        println!("VERIF-NATIVE: disagree {}", bad.join(" ; "));
    }
}
