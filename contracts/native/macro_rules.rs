// Native (cfg verif_replay) witness search for C04 / syntax-rules -- NOT proof.
// When an obligation of units macro_transform / macro_match fails (or a unit cannot be built), look for a concrete
// macro definition and use that shows it on the real interpreter.  Every case is (definition, use, expected):
// first matching rule in textual order; literal identifiers match only themselves; _ and pattern variables match any
// form; literal data match only equal data; a use that matches no rule is a syntax error.
use crate::error::ErrorData;

fn run(program: &str) -> std::result::Result<String, String> {
    let p = program.to_string();
    std::panic::catch_unwind(move || {
        let mut it = Interpreter::<f32>::new_with_stdlib();
        match it.eval(p.chars()) {
            Ok(v) => format!("value {}", v.map(|v| v.to_string()).unwrap_or_default()),
            Err(e) => match e.data {
                ErrorData::Syntax(_) => "SyntaxError".to_string(),
                other => format!("other error: {}", other),
            },
        }
    })
    .map_err(|_| "PANIC".to_string())
}

#[test]
fn verif_native_macro_witness() {
    std::panic::set_hook(Box::new(|_| {}));
    let mut n = 0;
    let mut bad: Vec<String> = Vec::new();
    let cases: [(&str, &str, &str); 34] = [
        // first matching rule, in textual order
        ("(define-syntax m (syntax-rules () ((m x) 'one) ((m x y) 'two) ((m x ...) 'many)))", "(m 1)", "value one"),
        ("(define-syntax m (syntax-rules () ((m x) 'one) ((m x y) 'two) ((m x ...) 'many)))", "(m 1 2)", "value two"),
        ("(define-syntax m (syntax-rules () ((m x) 'one) ((m x y) 'two) ((m x ...) 'many)))", "(m 1 2 3)", "value many"),
        ("(define-syntax m (syntax-rules () ((m x ...) 'many) ((m x) 'one)))", "(m 1)", "value many"),
        ("(define-syntax m (syntax-rules () ((m 1) 'first) ((m x) 'second)))", "(m 1)", "value first"),
        ("(define-syntax m (syntax-rules () ((m 1) 'first) ((m x) 'second)))", "(m 2)", "value second"),
        // bindings of an earlier rule that failed do not leak into a later rule
        ("(define-syntax m (syntax-rules () ((m a 1) a) ((m b 2) 'second)))", "(m 5 2)", "value second"),
        ("(define-syntax m (syntax-rules () ((m a 1) a) ((m b 2) 'a)))", "(m 5 2)", "value a"),
        // no rule matches: a syntax error
        ("(define-syntax m (syntax-rules () ((m x) 'one)))", "(m 1 2)", "SyntaxError"),
        ("(define-syntax m (syntax-rules () ((m 1) 'one)))", "(m 2)", "SyntaxError"),
        ("(define-syntax m (syntax-rules (a) ((m a) 'one)))", "(m b)", "SyntaxError"),
        // literal identifiers match only themselves
        ("(define-syntax m (syntax-rules (a b) ((m a) 'first) ((m b) 'second)))", "(m b)", "value second"),
        ("(define-syntax m (syntax-rules (a b) ((m a) 'first) ((m b) 'second)))", "(m a)", "value first"),
        ("(define-syntax m (syntax-rules (a b) ((m a x) x)))", "(m b 7)", "SyntaxError"),
        ("(define-syntax m (syntax-rules (a b) ((m (a x)) 'inner-a) ((m (b x)) 'inner-b)))", "(m (b 1))", "value inner-b"),
        ("(define-syntax m (syntax-rules (a) ((m a) 'lit) ((m x) 'var)))", "(m 5)", "value var"),
        // ... also the symbol that is spelled like one of the macro's literals
        ("(define-syntax m (syntax-rules (x) ((m a) (quote (got a)))))", "(m x)", "value (got x)"),
        ("(define-syntax m (syntax-rules (x) ((m a) (quote (first a))) ((m _) (quote second))))", "(m x)", "value (first x)"),
        ("(define-syntax m (syntax-rules (x) ((m a ...) (quote (a ...)))))", "(m 1 x 2)", "value (1 x 2)"),
        // sub-lists are matched element-wise INCLUDING their tail: a proper-list pattern does not match a datum with a dotted tail
        // (patterns with a dotted tail are outside the class the property names; data with a dotted tail are not)
        // (the macro is always called m: the macro table is per thread, not per interpreter -- C19 -- and a macro named like a
        // variable of base.sld breaks the construction of every later interpreter of this test)
        ("(define-syntax m (syntax-rules () ((m (a b)) '(two a b)) ((m x) '(other x))))", "(m (1 2 . 3))", "value (other (1 2 . 3))"),
        ("(define-syntax m (syntax-rules () ((m (a b)) '(two a b)) ((m x) '(other x))))", "(m (1 2))", "value (two 1 2)"),
        ("(define-syntax m (syntax-rules () ((m (a)) 'a)))", "(m (1 . 2))", "SyntaxError"),
        ("(define-syntax m (syntax-rules () ((m a b) '(a b))))", "(m 1 2 . 3)", "SyntaxError"),
        // _ and pattern variables match any form
        ("(define-syntax m (syntax-rules () ((m _ x) x)))", "(m (1 2 3) 4)", "value 4"),
        ("(define-syntax m (syntax-rules () ((m _ x) x)))", "(m \"s\" 4)", "value 4"),
        ("(define-syntax m (syntax-rules () ((m x) 'x)))", "(m (a b))", "value (a b)"),
        // literal data match only equal data (same kind and same value)
        ("(define-syntax m (syntax-rules () ((m 1) 'int) ((m \"1\") 'str) ((m #\\1) 'chr) ((m x) 'other)))", "(m \"1\")", "value str"),
        ("(define-syntax m (syntax-rules () ((m 1) 'int) ((m \"1\") 'str) ((m #\\1) 'chr) ((m x) 'other)))", "(m #\\1)", "value chr"),
        ("(define-syntax m (syntax-rules () ((m 1) 'int) ((m \"1\") 'str) ((m #\\1) 'chr) ((m x) 'other)))", "(m 1)", "value int"),
        ("(define-syntax m (syntax-rules () ((m #t) 'true) ((m x) 'other)))", "(m \"#t\")", "value other"),
        ("(define-syntax m (syntax-rules () ((m 0) 'zero) ((m x) 'other)))", "(m -2147483648)", "value other"),
        ("(define-syntax m (syntax-rules () ((m 1/2) 'half) ((m x) 'other)))", "(m 1/3)", "value other"),
        // a vector pattern never matches a scalar, a scalar pattern never a list
        ("(define-syntax m (syntax-rules () ((m #(a b)) 'vec) ((m x) 'other)))", "(m 5)", "value other"),
        ("(define-syntax m (syntax-rules () ((m 5) 'five) ((m x) 'other)))", "(m (5))", "value other"),
    ];
    for (def, use_, want) in cases.iter() {
        n += 1;
        let program = format!("{}\n{}", def, use_);
        let got = run(&program);
        if got.as_ref().map(|g| g != want).unwrap_or(true) && bad.len() < 4 {
            bad.push(format!("{:?} then {:?} -> {:?}, expected {:?}", def, use_, got, want));
        }
    }
    if bad.is_empty() {
        println!("VERIF-NATIVE: ok {} macro uses: first matching rule, literals, _, variables and the no-match error behave as specified", n);
    } else {
        println!("VERIF-NATIVE: disagree {}", bad.join(" ; "));
    }
}
