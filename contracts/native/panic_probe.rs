// Native (cfg verif_replay) witness search for C07 -- NOT proof.  When a panic-freedom obligation of a
// function under contract fails (a reachable todo!(), a failing unwrap()), look for a concrete source text that
// makes the real interpreter panic: a list of boundary programs plus every text up to length 4 over a
// 20-character alphabet, each evaluated on one interpreter under catch_unwind.

const ALPHABET: [char; 20] = ['(', ')', '.', '\'', '"', '#', '\\', '|', ';', 'a', '1', '0', '9', '/', 'e', '+', '-', ' ', '\n', 't'];
// (nested parameter lists reached ParameterFormals::as_name's unreachable!() until fix aaeb221; they are probed since)
// (a macro whose expansion is itself a define-syntax: the expander kept its table borrowed while transforming the expansion)
const SEEDS: [&str; 26] = [
    "((lambda ((a) b) a) 1 2)", "(define (f (a) b) a) (f 1 2)", "((lambda ((a . b)) a) 1)", "((lambda (a (b c)) a) 1 2)", "((lambda (a ()) a) 1 2)",
    "(define (g . (a)) a) (g 1)",
    "(a . b)", "'(a . b)", "(quote (1 . 2))", "1/", "1/0", "99999999999", "-99999999999", "1/99999999999", "1e", "1.e", "1e+",
    "(/ -2147483648 -1)", "(abs -2147483648)", "(if . 1)",
    "(define-syntax m (syntax-rules () ((m) (define-syntax n (syntax-rules () ((n) 1)))))) (m)",
    "(define-syntax m (syntax-rules () ((m x) (define-syntax x (syntax-rules () ((x) 2)))))) (m k) (k)",
    "(define-syntax m (syntax-rules () ((m) (m2)))) (define-syntax m2 (syntax-rules () ((m2) (define-syntax n (syntax-rules () ((n) 3)))))) (m) (n)",
    "(define (f) (define-syntax loc (syntax-rules () ((loc) 4))) (loc)) (f)",
    "(-)", "((lambda (a . b) a))",
];

fn panics(it: &mut Interpreter<f32>, text: &str) -> bool {
    let t = text.to_string();
    let r = std::panic::catch_unwind(std::panic::AssertUnwindSafe(|| {
        let _ = it.eval(t.chars());
    }));
    r.is_err()
}

#[test]
fn verif_native_panic_probe() {
    std::panic::set_hook(Box::new(|_| {}));
    let mut it = Interpreter::<f32>::new_with_stdlib();
    let mut n = 0u64;
    let mut bad: Vec<String> = Vec::new();
    for s in SEEDS.iter() {
        n += 1;
        if panics(&mut it, s) && bad.len() < 8 { bad.push(format!("{:?}", s)); }
    }
    let mut idx: Vec<usize> = Vec::new();
    'outer: loop {
        let s: String = idx.iter().map(|&i| ALPHABET[i]).collect();
        n += 1;
        if panics(&mut it, &s) {
            if bad.len() < 8 { bad.push(format!("{:?}", s)); }
            // a panicking interpreter may be left in a bad state: start afresh
            it = Interpreter::<f32>::new_with_stdlib();
        }
        let mut k = idx.len();
        loop {
            if k == 0 {
                if idx.len() == 4 { break 'outer; }
                idx = vec![0; idx.len() + 1];
                break;
            }
            k -= 1;
            if idx[k] + 1 < ALPHABET.len() { idx[k] += 1; for j in k + 1..idx.len() { idx[j] = 0; } break; }
        }
    }
    if bad.is_empty() {
        println!("VERIF-NATIVE: ok {} source texts (20 boundary programs + every text of length <= 4 over 20 characters): no panic", n);
    } else {
        println!("VERIF-NATIVE: disagree the interpreter PANICS on: {}", bad.join(" ; "));
    }
}
