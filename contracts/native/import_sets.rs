// Native (cfg verif_replay) witness search for C12 / C14 / Interpreter::eval_import_set -- NOT proof.
// When the Verus obligation on eval_import_set fails, look for a concrete import that shows it on the real interpreter:
//  * every import set of nesting depth <= 2 over only / except / prefix / rename (names drawn from the exports of
//    (scheme base) and some that it does not export) must yield exactly what the import-set algebra gives on the
//    library's export list;
//  * an import that fails (missing library, directly or under only/prefix) must fail the SAME way when repeated, and
//    must leave the in-progress set empty; a cyclic import (two library files importing each other) is the cyclic-import
//    error, every time.
use crate::error::ErrorData;
use crate::interpreter::error::LogicError;

type Bindings = Vec<(String, Value<f32>)>;

fn sorted(mut v: Bindings) -> Vec<(String, String)> {
    let mut out: Vec<(String, String)> = v.drain(..).map(|(n, val)| (n, format!("{:?}", val))).collect();
    out.sort();
    out
}

fn reference(import: &ImportSet, base: &Bindings) -> Bindings {
    match &import.data {
        ImportSetBody::Direct(_) => base.clone(),
        ImportSetBody::Only(inner, ids) => reference(inner, base).into_iter().filter(|(n, _)| ids.contains(n)).collect(),
        ImportSetBody::Except(inner, ids) => reference(inner, base).into_iter().filter(|(n, _)| !ids.contains(n)).collect(),
        ImportSetBody::Prefix(inner, p) => reference(inner, base).into_iter().map(|(n, v)| (format!("{}{}", p, n), v)).collect(),
        ImportSetBody::Rename(inner, renames) => reference(inner, base)
            .into_iter()
            .map(|(n, v)| {
                let mut to = None;
                for (from, t) in renames.iter() { if *from == n { to = Some(t.clone()); } }
                (to.unwrap_or(n), v)
            })
            .collect(),
    }
}

fn base_import() -> ImportSet { ImportSetBody::Direct(library_name!["ruschm", "base"].into()).no_locate() }

fn layer(inner: ImportSet, op: usize) -> ImportSet {
    let s = |x: &str| x.to_string();
    match op {
        0 => ImportSetBody::Only(Box::new(inner), vec![s("car"), s("cdr"), s("nosuch"), s("p-car")]),
        1 => ImportSetBody::Except(Box::new(inner), vec![s("car"), s("+"), s("nosuch"), s("p-cdr")]),
        2 => ImportSetBody::Prefix(Box::new(inner), s("p-")),
        3 => ImportSetBody::Rename(Box::new(inner), vec![(s("car"), s("first")), (s("cdr"), s("rest")), (s("nosuch"), s("x")), (s("car"), s("head"))]),
        4 => ImportSetBody::Only(Box::new(inner), vec![]),
        _ => ImportSetBody::Rename(Box::new(inner), vec![(s("p-car"), s("car")), (s("first"), s("car2"))]),
    }
    .no_locate()
}

fn kind(e: &SchemeError) -> String {
    match &e.data {
        ErrorData::Logic(LogicError::LibraryNotFound(_)) => "LibraryNotFound".to_string(),
        ErrorData::Logic(LogicError::LibraryImportCyclic(_)) => "LibraryImportCyclic".to_string(),
        other => format!("other: {}", other),
    }
}

/// C12: the algebra only
#[test]
fn verif_native_import_witness() { search(true, false) }
/// C14: the cycle detector only
#[test]
fn verif_native_import_cycle_witness() { search(false, true) }

fn search(algebra: bool, cycle: bool) {
    std::panic::set_hook(Box::new(|_| {}));
    let mut n = 0;
    let mut bad: Vec<String> = Vec::new();
    // ---- C12: the algebra ----
    let mut it = Interpreter::<f32>::default();
    let base = it.eval_import_set(&base_import()).expect("the native base library loads");
    let mut sets: Vec<ImportSet> = Vec::new();
    for a in 0..6 {
        sets.push(layer(base_import(), a));
        for b in 0..6 { sets.push(layer(layer(base_import(), a), b)); }
    }
    for set in sets.iter() {
        if !algebra { break; }
        n += 1;
        let want = sorted(reference(set, &base));
        match it.eval_import_set(set) {
            Ok(got) => {
                let got = sorted(got);
                if got != want && bad.len() < 4 {
                    let extra: Vec<&String> = got.iter().map(|p| &p.0).filter(|x| !want.iter().any(|w| &w.0 == *x)).take(3).collect();
                    let missing: Vec<&String> = want.iter().map(|p| &p.0).filter(|x| !got.iter().any(|g| &g.0 == *x)).take(3).collect();
                    bad.push(format!("{:?}: {} bindings instead of {} (unexpected names {:?}, missing names {:?})", set.data, got.len(), want.len(), extra, missing));
                }
            }
            Err(e) => if bad.len() < 4 { bad.push(format!("{:?}: error {}", set.data, e)); },
        }
    }
    for set in sets.iter() {
        if !cycle { break; }
        n += 1;
        let _ = it.eval_import_set(set);
        if !it.imported_library.is_empty() && bad.len() < 4 { bad.push(format!("{:?}: the in-progress set is not empty afterwards", set.data)); }
    }
    // ---- C12: several import sets in one declaration contribute the union (a later set wins on a shared name) ----
    if algebra {
        let s = |x: &str| x.to_string();
        let only = |names: Vec<&str>| ImportSetBody::Only(Box::new(base_import()), names.into_iter().map(|x| x.to_string()).collect()).no_locate();
        let decl = ImportDeclaration(vec![
            only(vec!["car", "cons"]),
            ImportSetBody::Prefix(Box::new(only(vec!["cdr"])), s("p-")).no_locate(),
            ImportSetBody::Rename(Box::new(only(vec!["cdr"])), vec![(s("cdr"), s("car"))]).no_locate(),   // rebinds car to cdr
        ]);
        let mut it2 = Interpreter::<f32>::default();
        let env = it2.env.clone();
        n += 1;
        match it2.eval_import(&decl, env.clone()) {
            Err(e) => bad.push(format!("a declaration with three import sets fails: {}", e)),
            Ok(()) => {
                let has = |name: &str| env.get(name).is_some();
                let car_is_cdr = match (env.get("car"), env.get("p-cdr")) { (Some(a), Some(b)) => format!("{:?}", *a) == format!("{:?}", *b), _ => false };
                if !(has("car") && has("cons") && has("p-cdr") && !has("cdr") && !has("vector-ref") && car_is_cdr) && bad.len() < 4 {
                    bad.push(format!("(import (only B car cons) (prefix (only B cdr) p-) (rename (only B cdr) (cdr car))): car {} cons {} p-cdr {} cdr {} vector-ref {}, car is the later set's cdr: {}",
                                     has("car"), has("cons"), has("p-cdr"), has("cdr"), has("vector-ref"), car_is_cdr));
                }
            }
        }
    }
    // ---- C14: failed imports leave no trace ----
    let missing = || -> ImportSet { ImportSetBody::Direct(library_name!["no", "such", "lib"].into()).no_locate() };
    for wrap in 0..3 {
        if !cycle { break; }
        let set = match wrap { 0 => missing(), 1 => layer(missing(), 0), _ => layer(layer(missing(), 2), 3) };
        let mut it = Interpreter::<f32>::default();
        it.program_directory = Some(std::env::temp_dir().join("verif-import-witness-none"));
        let mut kinds = Vec::new();
        for _ in 0..3 {
            n += 1;
            kinds.push(match it.eval_import_set(&set) { Ok(_) => "Ok".to_string(), Err(e) => kind(&e) });
        }
        if (kinds.iter().any(|k| k != "LibraryNotFound") || !it.imported_library.is_empty()) && bad.len() < 4 {
            bad.push(format!("importing a missing library three times gives {:?} (in-progress set afterwards: {} entries)", kinds, it.imported_library.len()));
        }
        n += 1;
        if it.eval_import_set(&base_import()).is_err() && bad.len() < 4 { bad.push("a later import of an existing library fails after a failed import".to_string()); }
    }
    // a cycle: (cyc a) imports (cyc b), (cyc b) imports (cyc a)
    let dir = std::env::temp_dir().join(format!("verif-import-witness-{}", std::process::id()));
    let _ = std::fs::create_dir_all(dir.join("cyc"));
    let _ = std::fs::write(dir.join("cyc").join("a.sld"), "(define-library (cyc a) (import (cyc b)) (export x) (begin (define x 1)))");
    let _ = std::fs::write(dir.join("cyc").join("b.sld"), "(define-library (cyc b) (import (cyc a)) (export y) (begin (define y 2)))");
    if cycle {
        let mut it = Interpreter::<f32>::default();
        it.program_directory = Some(dir.clone());
        let cyc = ImportSetBody::Direct(library_name!["cyc", "a"].into()).no_locate();
        let mut kinds = Vec::new();
        for _ in 0..2 {
            n += 1;
            kinds.push(match it.eval_import_set(&cyc) { Ok(_) => "Ok".to_string(), Err(e) => kind(&e) });
        }
        if (kinds.iter().any(|k| k != "LibraryImportCyclic") || !it.imported_library.is_empty()) && bad.len() < 4 {
            bad.push(format!("importing a library in a two-library cycle twice gives {:?} (in-progress set afterwards: {} entries)", kinds, it.imported_library.len()));
        }
    }
    // shared dependencies reached by several paths are NOT cycles: a diamond, a dependency imported by a library and by its importer,
    // a three-library chain; and genuine cycles of length 1 and 3 are
    let _ = std::fs::create_dir_all(dir.join("dia"));
    let lib = |name: &str, imports: &str, var: &str| format!("(define-library (dia {}) (import (ruschm base) {}) (export {}) (begin (define {} 1)))", name, imports, var, var);
    let _ = std::fs::write(dir.join("dia").join("shared.sld"), lib("shared", "", "s"));
    let _ = std::fs::write(dir.join("dia").join("left.sld"), lib("left", "(dia shared)", "l"));
    let _ = std::fs::write(dir.join("dia").join("right.sld"), lib("right", "(dia shared)", "r"));
    let _ = std::fs::write(dir.join("dia").join("top.sld"), lib("top", "(dia left) (dia right)", "t"));
    let _ = std::fs::write(dir.join("dia").join("both.sld"), lib("both", "(dia left) (dia shared)", "b"));
    let _ = std::fs::write(dir.join("dia").join("chain.sld"), lib("chain", "(dia top)", "c"));
    let _ = std::fs::write(dir.join("dia").join("self.sld"), lib("self", "(dia self)", "x"));
    let _ = std::fs::write(dir.join("dia").join("c1.sld"), lib("c1", "(dia c2)", "x"));
    let _ = std::fs::write(dir.join("dia").join("c2.sld"), lib("c2", "(dia c3)", "y"));
    let _ = std::fs::write(dir.join("dia").join("c3.sld"), lib("c3", "(dia c1)", "z"));
    if cycle {
        for (name, want) in [("top", "Ok"), ("both", "Ok"), ("chain", "Ok"), ("self", "LibraryImportCyclic"), ("c1", "LibraryImportCyclic")].iter() {
            let mut it = Interpreter::<f32>::default();
            it.program_directory = Some(dir.clone());
            let set = ImportSetBody::Direct(library_name!["dia", *name].into()).no_locate();
            let mut kinds = Vec::new();
            for _ in 0..2 {
                n += 1;
                kinds.push(match it.eval_import_set(&set) { Ok(_) => "Ok".to_string(), Err(e) => kind(&e) });
            }
            if (kinds.iter().any(|k| k != want) || !it.imported_library.is_empty()) && bad.len() < 4 {
                bad.push(format!("importing (dia {}) twice gives {:?}, expected {} both times (in-progress set afterwards: {} entries)", name, kinds, want, it.imported_library.len()));
            }
        }
    }
    let _ = std::fs::remove_dir_all(&dir);
    if bad.is_empty() {
        println!("VERIF-NATIVE: ok {} imports: {} as specified", n, if algebra { "the import-set algebra behaves" } else { "repeated failing imports and a cyclic import behave" });
    } else {
        println!("VERIF-NATIVE: disagree {}", bad.join(" ; "));
    }
}
