// Native (cfg verif_replay) witness search for C02 -- NOT proof.  A loop of N = 200 000 iterations whose recursive call sits
// in a tail context must complete; each program runs in a CHILD process (the same test binary, one test, the program in an
// environment variable), because a stack overflow aborts the process.  A control program whose recursive call is NOT in
// tail position must overflow -- otherwise the search proves nothing and says so.
// Used when an obligation of the trampoline (eval_tail_expression, eval_owned_tail_expression, apply_procedure) fails,
// and as a thorough-tier cross-check of what is not under contract: the derived forms of grammar.sld keep tail positions.

const CHILD: &str = "verif_native_tail_space_child";

#[test]
fn verif_native_tail_space_child() {
    // only does something when started by the witness below
    let program = match std::env::var("VERIF_TAIL_PROGRAM") { Ok(p) => p, Err(_) => return };
    let mut it = Interpreter::<f32>::new_with_stdlib();
    match it.eval(program.chars()) {
        Ok(v) => println!("VERIF-TAIL-RESULT: value {}", v.map(|v| v.to_string()).unwrap_or_default()),
        Err(e) => println!("VERIF-TAIL-RESULT: error {}", e),
    }
}

fn run_child(program: &str) -> String {
    let exe = match std::env::current_exe() { Ok(e) => e, Err(e) => return format!("cannot find the test binary: {}", e) };
    let name = format!("{}::{}", module_path!().trim_start_matches("ruschm::"), CHILD);
    let out = std::process::Command::new(exe)
        .args([name.as_str(), "--exact", "--nocapture", "--test-threads", "1"])
        .env("VERIF_TAIL_PROGRAM", program)
        .env("RUST_MIN_STACK", "2097152")
        .output();
    match out {
        Err(e) => format!("cannot start the child: {}", e),
        Ok(o) => {
            let text = String::from_utf8_lossy(&o.stdout).to_string();
            match text.lines().find(|l| l.contains("VERIF-TAIL-RESULT: ")) {
                Some(l) if o.status.success() => l[l.find("VERIF-TAIL-RESULT: ").unwrap() + 19..].to_string(),
                _ => format!("the process died ({})", o.status),
            }
        }
    }
}

#[test]
fn verif_native_tail_space_witness() {
    let n = 200000;
    let mut count = 0;
    let mut bad: Vec<String> = Vec::new();
    // control: a non-tail recursion of the same depth must NOT survive
    let control = format!("(define (f n) (if (= n 0) 0 (+ 1 (f (- n 1))))) (f {})", n);
    let c = run_child(&control);
    if c.starts_with("value") {
        println!("VERIF-NATIVE: ok 0 programs: inconclusive -- a non-tail recursion of depth {} does not overflow here, so tail calls cannot be told apart", n);
        return;
    }
    // (context, loop body with the recursive call written CALL); every one is a tail context of R7RS 3.5
    let contexts: [(&str, &str); 16] = [
        ("body", "CALL"),
        ("if-consequent", "(if #t CALL 0)"),
        ("if-alternative", "(if #f 0 CALL)"),
        ("if-nested", "(if #t (if #f 0 CALL) 0)"),
        ("begin", "(begin 1 CALL)"),
        ("let", "(let ((x 1)) CALL)"),
        ("let*", "(let* ((x 1) (y x)) CALL)"),
        ("cond-clause", "(cond (#f 0) (#t CALL))"),
        ("cond-else", "(cond (#f 0) (else CALL))"),
        ("case", "(case 1 ((2) 0) ((1) CALL))"),
        ("and", "(and #t CALL)"),
        ("or", "(or #f CALL)"),
        ("when", "(when #t 1 CALL)"),
        ("unless", "(unless #f 1 CALL)"),
        ("lambda-body", "((lambda () CALL))"),
        ("two-deep", "(begin (let ((x 1)) (if #t CALL 0)))"),
    ];
    for (name, ctx) in contexts.iter() {
        count += 1;
        let body = ctx.replace("CALL", "(loop (- n 1) (+ acc 1))");
        let program = format!("(define (loop n acc) (if (= n 0) acc {})) (loop {} 0)", body, n);
        let got = run_child(&program);
        if got != format!("value {}", n) && bad.len() < 4 {
            bad.push(format!("a loop of {} iterations through the tail context {} ({}) -> {}", n, name, ctx, got));
        }
    }
    // mutual recursion and a loop through a procedure parameter
    for (name, program) in [
        ("mutual", format!("(define (ev? n) (if (= n 0) #t (od? (- n 1)))) (define (od? n) (if (= n 0) #f (ev? (- n 1)))) (ev? {})", n)),
        ("higher-order", format!("(define (run k n) (if (= n 0) 'done (k k (- n 1)))) (run run {})", n)),
        ("rest-parameter", format!("(define (loop n . acc) (if (= n 0) 'done (loop (- n 1) 1 2))) (loop {})", n)),
        ("closure-returned", format!("(define (make-step) (lambda (n) (if (= n 0) 'done ((make-step) (- n 1))))) ((make-step) {})", n)),
        ("operator-chosen-by-if", format!("(define (ping n) (if (= n 0) 'done ((if (< n 10) ping pong) (- n 1)))) (define (pong n) (if (= n 0) 'done ((if (< n 10) pong ping) (- n 1)))) (ping {})", n)),
    ].iter() {
        count += 1;
        let got = run_child(program);
        let want = if *name == "mutual" { "value #t" } else { "value done" };
        if got != want && bad.len() < 4 { bad.push(format!("a {} loop of {} iterations -> {}", name, n, got)); }
    }
    // "the loop also computes the same result as the equivalent bounded iteration": a tail call to a DIFFERENT closure with
    // the same code must run THAT closure (its own captured variables)
    let pingpong = "(define (make tag next) (lambda (n) (if (= n 0) tag ((next) (- n 1))))) (define a (make 'a (lambda () b))) (define b (make 'b (lambda () a))) ";
    for (k, want) in [(0, "a"), (1, "b"), (2, "a"), (3, "b"), (200001, "b")].iter() {
        count += 1;
        let got = run_child(&format!("{}(a {})", pingpong, k));
        if got != format!("value {}", want) && bad.len() < 4 { bad.push(format!("{}(a {}) -> {}, expected {}", pingpong, k, got, want)); }
    }
    if bad.is_empty() {
        println!("VERIF-NATIVE: ok {} loop programs of {} iterations complete (the non-tail control overflows: {})", count, n, c);
    } else {
        println!("VERIF-NATIVE: disagree {}", bad.join(" ; "));
    }
}

#[test]
fn verif_native_apply_tail_known() {
    // KNOWN FINDING apply-not-a-tail-call: a loop whose recursive call is made through `apply` in tail position
    let n = 200000;
    let program = format!("(define (loop n acc) (if (= n 0) acc (apply loop (list (- n 1) (+ acc 1))))) (loop {} 0)", n);
    let got = run_child(&program);
    if got == format!("value {}", n) {
        println!("VERIF-NATIVE: ok a loop of {} iterations through apply in tail position completes", n);
    } else {
        println!("VERIF-NATIVE: disagree a loop of {} iterations whose tail call goes through apply -> {} (the builtin apply calls apply_procedure recursively: one Rust frame per iteration)", n, got);
    }
}
