// Native (cfg verif_replay) units for C13 / library definitions -- NOT proof.
//  * verif_native_library_witness: witness search used when the obligation on eval_library_definition fails: library
//    files written to a temporary directory; an importer sees exactly the exported bindings under their external names,
//    not the unexported ones; the library does not see the importer's definitions; redefining an imported name in the
//    importer does not change what the library's own procedures do.
//    All imports of a library within one program refer to one instance (two importers of a counter library share it).

fn write_libs(dir: &std::path::Path, files: &[(&str, &str)]) {
    let _ = std::fs::create_dir_all(dir);
    for (name, text) in files.iter() { let _ = std::fs::write(dir.join(name), text); }
}

fn eval_all(dir: &std::path::Path, forms: &[&str]) -> Vec<String> {
    let mut it = Interpreter::<f32>::new_with_stdlib();
    it.program_directory = Some(dir.to_path_buf());
    forms.iter().map(|f| match it.eval(f.chars()) {
        Ok(v) => format!("value {}", v.map(|v| v.to_string()).unwrap_or_default()),
        Err(e) => format!("error {}", e),
    }).collect()
}

#[test]
fn verif_native_library_witness() {
    let dir = std::env::temp_dir().join(format!("verif-library-witness-{}", std::process::id()));
    write_libs(&dir, &[
        ("shapes.sld", "(define-library (shapes) (import (scheme base)) (export area (rename internal-twice twice)) (begin (define hidden 7) (define (internal-twice x) (* 2 x)) (define (area w h) (* w h)) ))"),
        ("peek.sld", "(define-library (peek) (import (scheme base)) (export get-outer) (begin (define (get-outer) outer-secret)))"),
        ("uses.sld", "(define-library (uses) (import (scheme base)) (export call-helper) (begin (define (helper) 'library-helper) (define (call-helper) (helper))))"),
        ("bad.sld", "(define-library (bad) (import (scheme base)) (export missing) (begin (define present 1)))"),
        ("store.sld", "(define-library (store) (import (scheme base)) (export get (rename get fetch) put!) (begin (define cell 0) (define (get) cell) (define (put! v) (set! cell v))))"),
        ("split.sld", "(define-library (split) (import (scheme base)) (export (rename get fetch)) (begin (define (get) 7)) (export get) (export late) (begin (define late 3)))"),
        ("twice.sld", "(define-library (twice) (import (scheme base)) (export a a (rename a b) (rename a c)) (begin (define a 5)))"),
        ("inner.sld", "(define-library (inner) (import (scheme base)) (export inner-value) (begin (define inner-value 1) (define inner-private 2)))"),
        ("outer.sld", "(define-library (outer) (import (scheme base) (inner)) (export outer-value) (begin (define outer-value (+ inner-value 10))))"),
    ]);
    let mut n = 0;
    let mut bad: Vec<String> = Vec::new();
    let mut check = |forms: &[&str], want_last: &str, what: &str| {
        n += 1;
        let got = eval_all(&dir, forms);
        let last = got.last().cloned().unwrap_or_default();
        let ok = if want_last.ends_with('*') { last.starts_with(&want_last[..want_last.len() - 1]) } else { last == want_last };
        if !ok && bad.len() < 4 { bad.push(format!("{}: {:?} -> {:?}, expected the last result {:?}", what, forms, got, want_last)); }
    };
    check(&["(import (shapes))", "(area 3 4)"], "value 12", "an exported binding is visible under its name");
    check(&["(import (shapes))", "(twice 5)"], "value 10", "a renamed export is visible under its external name");
    check(&["(import (shapes))", "internal-twice"], "error *", "a renamed export is not visible under its internal name");
    check(&["(import (shapes))", "hidden"], "error *", "an unexported definition is not visible");
    check(&["(import (peek))", "(define outer-secret 42)", "(get-outer)"], "error *", "a library does not see the importer's definitions");
    check(&["(import (peek))", "(get-outer)"], "error *", "a free name of a library is unbound");
    check(&["(import (uses))", "(define (helper) 'importer-helper)", "(call-helper)"], "value library-helper", "redefining a name in the importer does not change the library's own procedures");
    check(&["(import (bad))"], "error *", "exporting a name the library does not define is an error");
    // one internal binding exported under several external names: every export spec contributes its external name
    check(&["(import (store))", "(put! 5)", "(+ (get) (fetch))"], "value 10", "a binding exported directly and through rename is visible under both names");
    check(&["(import (split))", "(+ (fetch) (get) late)"], "value 17", "export specs of several export declarations all count, also before/after the definition");
    check(&["(import (twice))", "(+ a b c)"], "value 15", "a repeated export spec and two renames of one binding");
    // what a library imports is not what it exports
    check(&["(import (outer))", "outer-value"], "value 11", "a library uses what it imports");
    check(&["(import (outer))", "inner-value"], "error *", "a library does not re-export what it imports");
    check(&["(import (outer))", "inner-private"], "error *", "nor the private definitions of what it imports");
    // all imports of a library within one program refer to ONE instance (fix e409057): two importers of a counter library share the counter
    write_libs(&dir, &[
        ("cnt.sld", "(define-library (cnt) (import (scheme base)) (export next) (begin (define n 0) (define (next) (set! n (+ n 1)) n)))"),
        ("a.sld", "(define-library (a) (import (scheme base) (cnt)) (export a-next) (begin (define (a-next) (next))))"),
        ("b.sld", "(define-library (b) (import (scheme base) (cnt)) (export b-next) (begin (define (b-next) (next))))"),
    ]);
    check(&["(import (a) (b))", "(a-next)", "(b-next)"], "value 2", "two importers of a library share its one instance");
    check(&["(import (a) (b) (cnt))", "(a-next)", "(b-next)", "(next)", "(a-next)"], "value 4", "the importing program shares it too");
    let _ = std::fs::remove_dir_all(&dir);
    if bad.is_empty() {
        println!("VERIF-NATIVE: ok {} library programs: exactly the exported bindings are visible, under their external names, and the library's frame is its own", n);
    } else {
        println!("VERIF-NATIVE: disagree {}", bad.join(" ; "));
    }
}

