// Native (cfg verif_replay) witness search for C08 / apply_procedure -- NOT proof.  When the Verus
// obligation "the argument count fits the formals at every hand-over in the trampoline" fails, look for
// a concrete Scheme program that shows it on the real interpreter: a procedure reached through a TAIL call
// with a number of arguments its parameter list does not accept must stop with ArgumentMissMatch.
use crate::error::ErrorData;
use crate::interpreter::error::LogicError;

fn run(program: &str) -> std::result::Result<String, String> {
    let p = program.to_string();
    let r = std::panic::catch_unwind(move || {
        let mut it = Interpreter::<f32>::new_with_stdlib();
        match it.eval(p.chars()) {
            Ok(v) => format!("value {:?}", v.map(|v| v.to_string())),
            Err(e) => match e.data {
                ErrorData::Logic(LogicError::ArgumentMissMatch(..)) => "ArgumentMissMatch".to_string(),
                other => format!("other error: {}", other),
            },
        }
    });
    r.map_err(|_| "PANIC".to_string())
}

#[test]
fn verif_native_tail_arity_witness() { search(false) }

/// C07: only a PANIC counts (a wrong classification is C08's business)
#[test]
fn verif_native_tail_arity_panic() { search(true) }

fn search(panic_only: bool) {
    std::panic::set_hook(Box::new(|_| {}));
    let mut n = 0;
    let mut bad: Vec<String> = Vec::new();
    for fixed in 0..3usize {
        for variadic in [false, true] {
            let params: Vec<String> = (0..fixed).map(|i| format!("p{}", i)).collect();
            let formals = if variadic {
                if fixed == 0 { "rest".to_string() } else { format!("({} . rest)", params.join(" ")) }
            } else {
                format!("({})", params.join(" "))
            };
            for nargs in 0..5usize {
                let args: Vec<String> = (0..nargs).map(|i| format!("{}", i + 1)).collect();
                let call = format!("(f {})", args.join(" "));
                for ctx in ["(define (g) CALL)", "(define (g) (if #t CALL 0))", "(define (g) (if #f 0 CALL))"] {
                    let program = format!("(define f (lambda {} 7)) {} (g)", formals, ctx.replace("CALL", &call));
                    let accepted = nargs >= fixed && (nargs == fixed || variadic);
                    n += 1;
                    let got = run(&program);
                    let ok = if panic_only { got.is_ok() } else { match (&got, accepted) {
                        (Ok(s), true) => s.starts_with("value"),
                        (Ok(s), false) => s == "ArgumentMissMatch",
                        (Err(_), _) => false,
                    } };
                    if !ok && bad.len() < 4 {
                        bad.push(format!("{:?} -> {:?} (count accepted by the formals: {})", program, got, accepted));
                    }
                }
            }
        }
    }
    if bad.is_empty() {
        println!("VERIF-NATIVE: ok {} tail-call programs: {}", n, if panic_only { "none panics" } else { "an unacceptable argument count is always ArgumentMissMatch" });
    } else {
        println!("VERIF-NATIVE: disagree {}", bad.join(" ; "));
    }
}
