// Native (cfg verif_replay) witness searches for the vector / pair builtins of base.rs -- NOT proof.
// Used when an obligation of unit base_pairs fails or the unit cannot be built, and as thorough-tier cross-checks.
//  * verif_native_vector_kind_witness  (C08): a wrong-typed argument / an index outside [0, length) / a negative length is
//    the error of its kind and changes nothing; an index inside the range reads / writes that element
//  * verif_native_vector_panic_witness (C07): the same programs: none may panic
//  * verif_native_vector_identity_witness (C03): aliases of a vector (variables, elements of vectors built by vector /
//    make-vector, arguments) observe every vector-set!, distinct vectors never do, literal vectors reject mutation
use crate::error::ErrorData;
use crate::interpreter::error::LogicError;

fn run(program: &str) -> std::result::Result<String, String> {
    let p = program.to_string();
    std::panic::catch_unwind(move || {
        let mut it = Interpreter::<f32>::new_with_stdlib();
        let p = match p.split_once('\u{1}') {
            Some((first, probe)) => { let _ = it.eval(first.chars()); probe.to_string() }
            None => p,
        };
        match it.eval(p.chars()) {
            Ok(v) => format!("value {}", v.map(|v| v.to_string()).unwrap_or_default()),
            Err(e) => match e.data {
                ErrorData::Logic(LogicError::TypeMisMatch(..)) => "TypeMisMatch".to_string(),
                ErrorData::Logic(LogicError::VectorIndexOutOfBounds) => "VectorIndexOutOfBounds".to_string(),
                ErrorData::Logic(LogicError::NegativeLength) => "NegativeLength".to_string(),
                ErrorData::Logic(LogicError::RequiresMutable(..)) => "RequiresMutable".to_string(),
                other => format!("other error: {}", other),
            },
        }
    })
    .map_err(|_| "PANIC".to_string())
}

fn cases() -> Vec<(String, String)> {
    let mut v: Vec<(String, String)> = Vec::new();
    let ks: [i64; 11] = [-2147483648, -4, -3, -2, -1, 0, 1, 2, 3, 4, 2147483647];
    for k in ks.iter() {
        let inside = *k >= 0 && *k < 3;
        let want = if inside { format!("value {}", (k + 1) * 10) } else { "VectorIndexOutOfBounds".to_string() };
        v.push((format!("(vector-ref (vector 10 20 30) {})", k), want.clone()));
        v.push((format!("(define v (make-vector 3 0)) (vector-set! v 0 10) (vector-set! v 1 20) (vector-set! v 2 30) (vector-ref v {})", k), want.clone()));
        v.push((format!("(vector-ref #(10 20 30) {})", k), want));
        // a write outside the range fails and changes nothing; inside it changes exactly that element
        let after = if inside { let mut e = [10, 20, 30]; e[*k as usize] = 99; format!("value ({})", e.iter().map(|x| x.to_string()).collect::<Vec<_>>().join(" ")) }
                    else { "value (10 20 30)".to_string() };
        v.push((format!("(define v (vector 10 20 30)) (vector-set! v {} 99)", k), if inside { "value Void".to_string() } else { "VectorIndexOutOfBounds".to_string() }));
        v.push((format!("(define v (vector 10 20 30)) (vector-set! v {} 99)\u{1}(list (vector-ref v 0) (vector-ref v 1) (vector-ref v 2))", k), after));
    }
    for (p, want) in [
        ("(vector-ref 5 0)", "TypeMisMatch"), ("(vector-ref (vector 1) 'a)", "TypeMisMatch"), ("(vector-ref (vector 1) 1.5)", "TypeMisMatch"),
        ("(vector-length 5)", "TypeMisMatch"), ("(vector-length (vector))", "value 0"), ("(vector-length (vector 1 2))", "value 2"),
        ("(vector-length (make-vector 4 #t))", "value 4"), ("(make-vector -1 0)", "NegativeLength"), ("(make-vector -2147483648 0)", "NegativeLength"),
        ("(make-vector 'a 0)", "TypeMisMatch"), ("(vector-length (make-vector 0 0))", "value 0"),
        ("(vector-set! #(1 2 3) 0 9)", "RequiresMutable"), ("(vector-set! 5 0 9)", "TypeMisMatch"),
        ("(car 5)", "TypeMisMatch"), ("(cdr 5)", "TypeMisMatch"), ("(car '())", "TypeMisMatch"), ("(cdr '())", "TypeMisMatch"),
        ("(car (cons 1 2))", "value 1"), ("(cdr (cons 1 2))", "value 2"), ("(abs 'a)", "TypeMisMatch"), ("(floor \"x\")", "TypeMisMatch"),
        ("(apply car '((1 2)))", "value 1"), ("(apply + 1 2 '(3 4))", "value 10"), ("(apply + 1 2)", "TypeMisMatch"), ("(apply 5 '(1))", "TypeMisMatch"),
        ("(not #f)", "value #t"), ("(not 0)", "value #f"), ("(pair? '())", "value #f"), ("(pair? (cons 1 2))", "value #t"),
    ].iter() {
        v.push((p.to_string(), want.to_string()));
    }
    v
}

fn search(panic_only: bool) {
    std::panic::set_hook(Box::new(|_| {}));
    let mut n = 0;
    let mut bad: Vec<String> = Vec::new();
    for (program, want) in cases().iter() {
        n += 1;
        let got = run(program);
        let ok = if panic_only { got.is_ok() } else { got.as_ref().map(|g| g == want).unwrap_or(false) };
        if !ok && bad.len() < 4 { bad.push(format!("{:?} -> {:?}, expected {:?}", program, got, if panic_only { "no panic" } else { want.as_str() })); }
    }
    if bad.is_empty() {
        println!("VERIF-NATIVE: ok {} programs: {}", n, if panic_only { "none panics" } else { "vector / pair builtins classify their errors and index exactly [0, length)" });
    } else {
        println!("VERIF-NATIVE: disagree {}", bad.join(" ; "));
    }
}

#[test]
fn verif_native_vector_kind_witness() { search(false) }
#[test]
fn verif_native_vector_panic_witness() { search(true) }

#[test]
fn verif_native_vector_identity_witness() {
    std::panic::set_hook(Box::new(|_| {}));
    let mut n = 0;
    let mut bad: Vec<String> = Vec::new();
    let cases: [(&str, &str); 28] = [
        // aliases through variables, arguments, elements of vectors and lists
        ("(define v (vector 1 2 3)) (define w v) (vector-set! w 0 9) (vector-ref v 0)", "value 9"),
        ("(define v (vector 1 2 3)) (define (poke x) (vector-set! x 1 8)) (poke v) (vector-ref v 1)", "value 8"),
        ("(define row (vector 0 0)) (define g (vector row row)) (vector-set! row 0 7) (vector-ref (vector-ref g 1) 0)", "value 7"),
        ("(define row (vector 0 0)) (define g (make-vector 2 row)) (vector-set! row 0 7) (vector-ref (vector-ref g 0) 0)", "value 7"),
        ("(define row (vector 0 0)) (define g (make-vector 2 row)) (vector-set! (vector-ref g 0) 1 5) (vector-ref (vector-ref g 1) 1)", "value 5"),
        ("(define row (vector 0 0)) (define g (make-vector 2 row)) (eqv? (vector-ref g 0) (vector-ref g 1))", "value #t"),
        ("(define row (vector 0 0)) (define l (list row row)) (vector-set! (car l) 0 4) (vector-ref (car (cdr l)) 0)", "value 4"),
        // a stored element IS the object that was stored, also when it equals the old one
        ("(define a (vector 1)) (define b (vector 1)) (define v (vector a)) (vector-set! v 0 b) (vector-set! b 0 9) (vector-ref (vector-ref v 0) 0)", "value 9"),
        ("(define a (vector 1)) (define b (vector 1)) (define v (vector a)) (vector-set! v 0 b) (eqv? (vector-ref v 0) b)", "value #t"),
        // ... also when the stored vector's contents equal the target's at that moment, and when a vector is stored into itself
        ("(define a (vector 1 2)) (define b (vector 1 2)) (vector-set! a 0 b) (vector-set! b 1 9) (vector-ref (vector-ref a 0) 1)", "value 9"),
        ("(define a (make-vector 2 0)) (define b (make-vector 2 0)) (vector-set! a 0 b) (vector-set! (vector-ref a 0) 1 7) (vector-ref b 1)", "value 7"),
        ("(define v (vector 1 2)) (vector-set! v 0 v) (vector-set! v 1 7) (vector-ref (vector-ref v 0) 1)", "value 7"),
        // distinct vectors never observe each other
        ("(define a (vector 1 2)) (define b (vector 1 2)) (vector-set! a 0 9) (vector-ref b 0)", "value 1"),
        ("(define a (make-vector 2 0)) (define b (make-vector 2 0)) (vector-set! a 0 9) (vector-ref b 0)", "value 0"),
        ("(define a (vector 1 2)) (define b (vector 1 2)) (eqv? a b)", "value #f"),
        // ... also EMPTY ones (they own no element buffer), however they were made; an empty vector is still itself
        ("(eqv? (vector) (vector))", "value #f"),
        ("(define e1 (vector)) (define e2 (vector)) (eqv? e1 e2)", "value #f"),
        ("(define e1 (vector)) (eqv? e1 (make-vector 0 7))", "value #f"),
        ("(define e1 (vector)) (eqv? e1 '#())", "value #f"),
        ("(define e1 (vector)) (define w e1) (eqv? e1 w)", "value #t"),
        ("(define e1 (vector)) (define g (vector e1)) (eqv? (vector-ref g 0) e1)", "value #t"),
        // literal vectors reject mutation, also when reached through a constructed vector
        ("(define v (make-vector 1 #(1 2))) (vector-set! (vector-ref v 0) 0 9)", "RequiresMutable"),
        ("(define v #(1 2 3)) (vector-set! v 0 9)", "RequiresMutable"),
        // ... quoted, nested in a literal vector or a literal list, and still after the failed attempt
        ("(define v '#(1 2 3)) (vector-set! v 2 9)", "RequiresMutable"),
        ("(define v '#(#(1) 2)) (vector-set! (vector-ref v 0) 0 9)", "RequiresMutable"),
        ("(define l '(1 #(2 3))) (vector-set! (car (cdr l)) 0 9)", "RequiresMutable"),
        ("(define l '(#(1) . #(2))) (vector-set! (cdr l) 0 9)", "RequiresMutable"),
        ("(define v '#(1 #(2))) (vector-ref (vector-ref v 1) 0)", "value 2"),
    ];
    for (program, want) in cases.iter() {
        n += 1;
        let got = run(program);
        if got.as_ref().map(|g| g != want).unwrap_or(true) && bad.len() < 4 { bad.push(format!("{:?} -> {:?}, expected {:?}", program, got, want)); }
    }
    if bad.is_empty() {
        println!("VERIF-NATIVE: ok {} histories: aliases of a vector observe every vector-set!, distinct vectors never do, literal vectors reject mutation", n);
    } else {
        println!("VERIF-NATIVE: disagree {}", bad.join(" ; "));
    }
}

#[test]
fn verif_native_after_error_witness() {
    // C08, last sentence: after a run-time error the interpreter keeps exactly the effects completed before it and
    // evaluates later forms normally.  8 fault kinds x 5 calling contexts, each as [setup, faulting form, probes].
    std::panic::set_hook(Box::new(|_| {}));
    let faults: [(&str, &str); 8] = [
        ("(5 1)", "TypeMisMatch"),                       // call of a non-procedure
        ("(two 1)", "ArgumentMissMatch"),                // wrong argument count
        ("nosuch", "UnboundedSymbol"),                   // unbound variable read
        ("(set! nosuch 1)", "UnboundedSymbol"),          // unbound variable assigned
        ("(car 5)", "TypeMisMatch"),                     // wrong argument type
        ("(vector-ref vec 3)", "VectorIndexOutOfBounds"),
        ("(vector-set! #(1 2) 0 9)", "RequiresMutable"),
        ("(/ 1 0)", "DivisionByZero"),
    ];
    let contexts: [&str; 5] = [
        "FAULT",                                            // direct, top level
        "(define (t) FAULT) (t)",                          // tail call position of a user procedure
        "(apply (lambda () FAULT) '())",                   // through apply
        "(car (map (lambda (x) FAULT) '(1)))",             // from a library procedure
        "(begin (set! counter (+ counter 1)) (set! counter (+ counter (car (cons FAULT 1)))))", // after one completed effect
    ];
    let setup = "(define counter 10) (define vec (vector 1 2 3)) (define (two a b) a)";
    let mut n = 0;
    let mut bad: Vec<String> = Vec::new();
    for (fault, kind) in faults.iter() {
        for (ci, ctx) in contexts.iter().enumerate() {
            n += 1;
            let program = ctx.replace("FAULT", fault);
            let r = std::panic::catch_unwind(|| {
                let mut it = Interpreter::<f32>::new_with_stdlib();
                let s = it.eval(setup.chars()).is_ok();
                let got = match it.eval(program.chars()) {
                    Ok(v) => format!("value {}", v.map(|v| v.to_string()).unwrap_or_default()),
                    Err(e) => match e.data {
                        ErrorData::Logic(LogicError::TypeMisMatch(..)) => "TypeMisMatch".to_string(),
                        ErrorData::Logic(LogicError::ArgumentMissMatch(..)) => "ArgumentMissMatch".to_string(),
                        ErrorData::Logic(LogicError::UnboundedSymbol(..)) => "UnboundedSymbol".to_string(),
                        ErrorData::Logic(LogicError::VectorIndexOutOfBounds) => "VectorIndexOutOfBounds".to_string(),
                        ErrorData::Logic(LogicError::RequiresMutable(..)) => "RequiresMutable".to_string(),
                        ErrorData::Logic(LogicError::DivisionByZero) => "DivisionByZero".to_string(),
                        other => format!("other error: {}", other),
                    },
                };
                // later forms: earlier definitions intact, effects before the fault kept, nothing after it done
                let counter = it.eval("counter".chars()).map(|v| v.map(|v| v.to_string()).unwrap_or_default()).unwrap_or_else(|e| format!("error {}", e));
                let later = it.eval("(define later (+ (vector-ref vec 2) (two 4 5))) later".chars()).map(|v| v.map(|v| v.to_string()).unwrap_or_default()).unwrap_or_else(|e| format!("error {}", e));
                (s, got, counter, later)
            });
            match r {
                Err(_) => if bad.len() < 4 { bad.push(format!("{:?} PANICS", program)); },
                Ok((s, got, counter, later)) => {
                    let want_counter = if ci == 4 { "11" } else { "10" };
                    if (!s || got != *kind || counter != want_counter || later != "7") && bad.len() < 4 {
                        bad.push(format!("{:?} -> {} (expected {}), afterwards counter = {} (expected {}), a later form = {} (expected 7)", program, got, kind, counter, want_counter, later));
                    }
                }
            }
        }
    }
    if bad.is_empty() {
        println!("VERIF-NATIVE: ok {} fault programs (8 kinds x 5 calling contexts): the error has its kind, effects before it are kept, later forms evaluate normally", n);
    } else {
        println!("VERIF-NATIVE: disagree {}", bad.join(" ; "));
    }
}
