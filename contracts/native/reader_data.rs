// Native (cfg verif_replay) cross-check for C06 / the reader proper (parser.rs: nested lists, dotted tails, vectors,
// the quote abbreviation) -- NOT proof, and not tied to a Verus obligation: the reader is not under contract.  It runs
// in the thorough tier only; a text whose datum is not the one it denotes is reported as a violation with that text.

fn read_back(text: &str) -> std::result::Result<String, String> {
    let t = format!("'{}", text);
    std::panic::catch_unwind(move || {
        let mut it = Interpreter::<f32>::new_with_stdlib();
        match it.eval(t.chars()) {
            Ok(v) => format!("datum {}", v.map(|v| v.to_string()).unwrap_or_default()),
            Err(e) => match e.data {
                crate::error::ErrorData::Syntax(_) => "SyntaxError".to_string(),
                other => format!("other error: {}", other),
            },
        }
    })
    .map_err(|_| "PANIC".to_string())
}

#[test]
fn verif_native_reader_witness() {
    std::panic::set_hook(Box::new(|_| {}));
    let mut n = 0;
    let mut bad: Vec<String> = Vec::new();
    let cases: [(&str, &str); 30] = [
        ("()", "datum ()"), ("(1)", "datum (1)"), ("(1 2 3)", "datum (1 2 3)"), ("(1 (2 (3)) 4)", "datum (1 (2 (3)) 4)"),
        ("( 1\n ; c\n 2 )", "datum (1 2)"), ("(1 . 2)", "datum (1 . 2)"), ("(1 2 . 3)", "datum (1 2 . 3)"),
        ("(1 . (2 3))", "datum (1 2 3)"), ("(1 . (2 . (3 . ())))", "datum (1 2 3)"), ("(1 (2 . 3) . 4)", "datum (1 (2 . 3) . 4)"),
        ("((1 . 2) . (3 . 4))", "datum ((1 . 2) 3 . 4)"),
        // a dot needs a datum before it and exactly one after it
        ("( . 1)", "SyntaxError"), ("(1 . )", "SyntaxError"), ("(. )", "SyntaxError"), ("(1 . 2 3)", "SyntaxError"), ("(1 . . 2)", "SyntaxError"),
        // vectors
        ("#()", "datum #()"), ("#(1 2)", "datum #(1 2)"), ("#(1 (2 3) #(4))", "datum #(1 (2 3) #(4))"), ("#(1 . 2)", "SyntaxError"),
        // the quote abbreviation
        ("a", "datum a"), ("'a", "datum (quote a)"), ("''a", "datum (quote (quote a))"), ("(a 'b)", "datum (a (quote b))"),
        ("'(1 2)", "datum (quote (1 2))"), ("#('a)", "datum #((quote a))"), ("(1 . 'a)", "datum (1 quote a)"),
        // unbalanced
        ("(1 2", "SyntaxError"), ("#(1", "SyntaxError"), ("(1 (2)", "SyntaxError"),
    ];
    for (text, want) in cases.iter() {
        n += 1;
        let got = read_back(text);
        if got.as_ref().map(|g| g != want).unwrap_or(true) && bad.len() < 5 { bad.push(format!("{:?} reads as {:?}, expected {:?}", text, got, want)); }
    }
    if bad.is_empty() {
        println!("VERIF-NATIVE: ok {} texts: lists, dotted tails, vectors and quote abbreviations read as the data they denote", n);
    } else {
        println!("VERIF-NATIVE: disagree {}", bad.join(" ; "));
    }
}
