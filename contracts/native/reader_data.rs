// Native (cfg verif_replay) cross-check for C06 / the reader proper (parser.rs: nested lists, dotted tails, vectors,
// the quote abbreviation) -- NOT proof, and not tied to a Verus obligation: the reader is not under contract.  It runs
// in both tiers; a text whose datum is not the one it denotes is reported as a violation with that text.
// Second part (BOUNDED, stated bound): every token sequence of length <= 6 over the seven tokens ( ) . ' #( a 1 is laid out
// as text, read by the real Lexer + Parser::current_datum, and compared -- structure AND number of tokens consumed -- with
// an independent reference reader written below from R7RS 7.1.2 (<datum>, <list>, <vector>, <abbreviation>).

fn read_back(text: &str) -> std::result::Result<String, String> {
    let t = format!("'{}", text);
    std::panic::catch_unwind(move || {
        let mut it = Interpreter::<f32>::new_with_stdlib();
        match it.eval(t.chars()) {
            Ok(v) => format!("datum {}", v.map(|v| v.to_string()).unwrap_or_default()),
            Err(e) => match e.data {
                crate::error::ErrorData::Syntax(_) => "SyntaxError".to_string(),
                other => format!("other error: {}", other),
            },
        }
    })
    .map_err(|_| "PANIC".to_string())
}

// ---- reference reader (independent of parser.rs) ----
#[derive(PartialEq, Debug, Clone)]
enum RefTree { Sym(String), Int(i32), Nil, Cons(Box<RefTree>, Box<RefTree>), Vector(Vec<RefTree>) }

const REF_TOKENS: [&str; 7] = ["(", ")", ".", "'", "#(", "a", "1"];

// one datum starting at ts[i]: the tree and the index after its last token
fn ref_datum(ts: &[usize], i: usize) -> Option<(RefTree, usize)> {
    match REF_TOKENS[*ts.get(i)?] {
        "a" => Some((RefTree::Sym("a".to_string()), i + 1)),
        "1" => Some((RefTree::Int(1), i + 1)),
        "(" => ref_list(ts, i + 1),
        "#(" => {
            let mut items = Vec::new();
            let mut j = i + 1;
            loop {
                if REF_TOKENS[*ts.get(j)?] == ")" { return Some((RefTree::Vector(items), j + 1)); }
                let (t, k) = ref_datum(ts, j)?;
                items.push(t);
                j = k;
            }
        }
        "'" => {
            let (t, j) = ref_datum(ts, i + 1)?;
            Some((RefTree::Cons(Box::new(RefTree::Sym("quote".to_string())), Box::new(RefTree::Cons(Box::new(t), Box::new(RefTree::Nil)))), j))
        }
        _ => None, // ) and . do not start a datum
    }
}
// the rest of a list after ( and zero or more data: <datum>* ) | <datum>+ . <datum> )
fn ref_list(ts: &[usize], i: usize) -> Option<(RefTree, usize)> {
    if REF_TOKENS[*ts.get(i)?] == ")" { return Some((RefTree::Nil, i + 1)); }
    let (car, j) = ref_datum(ts, i)?;
    if REF_TOKENS[*ts.get(j)?] == "." {
        let (cdr, k) = ref_datum(ts, j + 1)?;
        if REF_TOKENS[*ts.get(k)?] != ")" { return None; }
        return Some((RefTree::Cons(Box::new(car), Box::new(cdr)), k + 1));
    }
    let (cdr, k) = ref_list(ts, j)?;
    Some((RefTree::Cons(Box::new(car), Box::new(cdr)), k))
}
fn tree_of_datum(d: &crate::parser::Datum) -> RefTree {
    use crate::parser::{DatumBody, Primitive};
    use crate::parser::pair::GenericPair;
    match &d.data {
        DatumBody::Symbol(s) => RefTree::Sym(s.clone()),
        DatumBody::Primitive(Primitive::Integer(k)) => RefTree::Int(*k),
        DatumBody::Primitive(other) => RefTree::Sym(format!("unexpected primitive {:?}", other)),
        DatumBody::Vector(v) => RefTree::Vector(v.iter().map(tree_of_datum).collect()),
        DatumBody::Pair(p) => match p.as_ref() {
            GenericPair::Empty => RefTree::Nil,
            GenericPair::Some(car, cdr) => RefTree::Cons(Box::new(tree_of_datum(car)), Box::new(tree_of_datum(cdr))),
        },
    }
}
// what the real reader makes of the text: Ok(Some((tree, tokens left unread))) / Ok(None) at the end of the text / Err
fn real_read(text: &str) -> std::result::Result<Option<(RefTree, usize)>, String> {
    let t = text.to_string();
    std::panic::catch_unwind(move || {
        let mut parser = crate::parser::Parser::from_lexer(crate::parser::Lexer::from_char_stream(t.chars()));
        parser.current = match parser.lexer.next().transpose() { Ok(c) => c, Err(e) => return Err(format!("lexer error {}", e)) };
        match parser.current_datum() {
            Ok(None) => Ok(None),
            Ok(Some(d)) => { let tree = tree_of_datum(&d); Ok(Some((tree, parser.lexer.count()))) }
            Err(e) => Err(format!("{}", e)),
        }
    })
    .unwrap_or_else(|_| Err("PANIC".to_string()))
}

#[test]
fn verif_native_reader_witness() {
    std::panic::set_hook(Box::new(|_| {}));
    let mut n = 0;
    let mut bad: Vec<String> = Vec::new();
    let cases: [(&str, &str); 30] = [
        ("()", "datum ()"), ("(1)", "datum (1)"), ("(1 2 3)", "datum (1 2 3)"), ("(1 (2 (3)) 4)", "datum (1 (2 (3)) 4)"),
        ("( 1\n ; c\n 2 )", "datum (1 2)"), ("(1 . 2)", "datum (1 . 2)"), ("(1 2 . 3)", "datum (1 2 . 3)"),
        ("(1 . (2 3))", "datum (1 2 3)"), ("(1 . (2 . (3 . ())))", "datum (1 2 3)"), ("(1 (2 . 3) . 4)", "datum (1 (2 . 3) . 4)"),
        ("((1 . 2) . (3 . 4))", "datum ((1 . 2) 3 . 4)"),
        // a dot needs a datum before it and exactly one after it
        ("( . 1)", "SyntaxError"), ("(1 . )", "SyntaxError"), ("(. )", "SyntaxError"), ("(1 . 2 3)", "SyntaxError"), ("(1 . . 2)", "SyntaxError"),
        // vectors
        ("#()", "datum #()"), ("#(1 2)", "datum #(1 2)"), ("#(1 (2 3) #(4))", "datum #(1 (2 3) #(4))"), ("#(1 . 2)", "SyntaxError"),
        // the quote abbreviation
        ("a", "datum a"), ("'a", "datum (quote a)"), ("''a", "datum (quote (quote a))"), ("(a 'b)", "datum (a (quote b))"),
        ("'(1 2)", "datum (quote (1 2))"), ("#('a)", "datum #((quote a))"), ("(1 . 'a)", "datum (1 quote a)"),
        // unbalanced
        ("(1 2", "SyntaxError"), ("#(1", "SyntaxError"), ("(1 (2)", "SyntaxError"),
    ];
    for (text, want) in cases.iter() {
        n += 1;
        let got = read_back(text);
        if got.as_ref().map(|g| g != want).unwrap_or(true) && bad.len() < 5 { bad.push(format!("{:?} reads as {:?}, expected {:?}", text, got, want)); }
    }
    // data -> values (read_literal / eval_primitive): the kind of every leaf survives quoting, at every nesting
    let programs: [(&str, &str); 21] = [
        ("(string? (car (cdr '(a \"b\" #\\c))))", "datum #t"), ("(symbol? (car '(a \"b\")))", "datum #t"), ("(char? (car (cdr (cdr '(a \"b\" #\\c)))))", "datum #t"),
        ("(symbol? (vector-ref '#(a \"b\") 0))", "datum #t"), ("(string? (vector-ref '#(a \"b\") 1))", "datum #t"),
        ("(= (car (cdr '(1 2/4 -3))) 1/2)", "datum #t"), ("(= (vector-ref '#(1 -2/4) 1) -1/2)", "datum #t"), ("(= (car (cdr (cdr '(1 2/4 -3)))) -3)", "datum #t"),
        ("(= (car '(-1/3)) (- 1/3))", "datum #t"), ("(= -7/3 (- 7/3))", "datum #t"), ("(= (cdr '(a . -4/7)) (- 4/7))", "datum #t"),
        ("(= (vector-ref '#(1 (-1/5) -6/5) 2) (- 6/5))", "datum #t"), ("(= (* 3 '7/3) 7)", "datum #t"),
        ("(boolean? (car '(#f)))", "datum #t"), ("(car '(#f))", "datum #f"), ("(null? (vector-ref '#(()) 0))", "datum #t"),
        ("(vector? (cdr '(1 . #(2))))", "datum #t"), ("(vector-ref (cdr '(1 . #(2 3))) 1)", "datum 3"),
        ("(vector? (car (cdr '(1 #(2)))))", "datum #t"), ("(pair? (vector-ref '#((1 . 2)) 0))", "datum #t"), ("(cdr (vector-ref '#((1 . 2)) 0))", "datum 2"),
    ];
    for (program, want) in programs.iter() {
        n += 1;
        let t = program.to_string();
        let got = std::panic::catch_unwind(move || {
            let mut it = Interpreter::<f32>::new_with_stdlib();
            match it.eval(t.chars()) { Ok(v) => format!("datum {}", v.map(|v| v.to_string()).unwrap_or_default()), Err(e) => format!("error {}", e) }
        }).unwrap_or_else(|_| "PANIC".to_string());
        if got != *want && bad.len() < 5 { bad.push(format!("{:?} evaluates to {:?}, expected {:?}", program, got, want)); }
    }
    // BOUNDED part: all token sequences of length <= 6 over REF_TOKENS (137 257 texts)
    let mut m = 0;
    for len in 0..=6usize {
        let mut ts = vec![0usize; len];
        'seqs: loop {
            m += 1;
            let text = ts.iter().map(|&k| REF_TOKENS[k]).collect::<Vec<_>>().join(" ");
            let want = ref_datum(&ts, 0).map(|(t, j)| (t, len - j));
            let got = real_read(&text);
            let agree = match (&want, &got) {
                (Some(w), Ok(Some(g))) => w == g,
                (None, Ok(None)) => len == 0,
                (None, Err(e)) => len > 0 && e != "PANIC",
                _ => false,
            };
            if !agree && bad.len() < 5 {
                bad.push(format!("{:?} reads as {:?}, the reference reader gives {:?} (tree, tokens left unread)", text, got, want));
            }
            // next sequence
            let mut p = len;
            loop {
                if p == 0 { break 'seqs; }
                p -= 1;
                if ts[p] + 1 < REF_TOKENS.len() { ts[p] += 1; break; }
                ts[p] = 0;
            }
        }
    }
    if bad.is_empty() {
        println!("VERIF-NATIVE: ok {} texts + all {} token sequences of length <= 6 over ( ) . ' #( a 1: lists, dotted tails, vectors and quote abbreviations read as the data they denote", n, m);
    } else {
        println!("VERIF-NATIVE: disagree {}", bad.join(" ; "));
    }
}
