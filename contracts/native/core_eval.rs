// Native (cfg verif_replay) witness search / cross-check for C01 -- NOT proof.  Programs over the core forms only (procedure
// application with fixed and rest parameters, lambda, top-level and internal definitions, if, quote, literals, higher-order
// procedures, apply) with the value the R7RS evaluation rules assign, evaluated form by form on one interpreter.  Only native
// builtins are used (+ - * / = < car cdr cons not eqv? apply) so that a disagreement is about the evaluator, not about the
// Scheme-level library or the derived forms (C05 / C11).  `set!` appears only as an instrument that counts evaluations.

fn last_result(program: &str) -> String {
    let text = program.to_string();
    std::panic::catch_unwind(move || {
        let mut it = Interpreter::<f32>::new_with_stdlib();
        // form by form: the text is split at top-level parentheses by the reader itself (eval evaluates every form and returns the last value)
        match it.eval(text.chars()) {
            Ok(v) => format!("value {}", v.map(|v| v.to_string()).unwrap_or_default()),
            Err(_) => "error".to_string(),
        }
    })
    .unwrap_or_else(|_| "PANIC".to_string())
}

#[test]
fn verif_native_core_eval_witness() {
    std::panic::set_hook(Box::new(|_| {}));
    let mut n = 0;
    let mut bad: Vec<String> = Vec::new();
    let cases: [(&str, &str, &str); 82] = [
        // ---- lexical scope: the innermost binding, found where the procedure was CREATED
        ("(define x 1) (define (f) x) (define (g x) (f)) (g 2)", "value 1", "lexical, not dynamic, scope"),
        ("(define (make-adder n) (lambda (x) (+ x n))) ((make-adder 3) 4)", "value 7", "a closure sees the frame it was created in"),
        ("(define (make-adder n) (lambda (x) (+ x n))) (define add3 (make-adder 3)) (define add5 (make-adder 5)) (+ (add3 1) (add5 1))", "value 10", "every call creates its own frame"),
        ("(define x 1) ((lambda (x) x) 2)", "value 2", "a parameter shadows a global"),
        ("(define x 1) ((lambda (x) x) 2) x", "value 1", "and the global is untouched"),
        ("((lambda (x) ((lambda (x) x) 3)) 2)", "value 3", "the innermost binding wins"),
        ("((lambda (x) ((lambda (y) x) 3)) 2)", "value 2", "an outer parameter is visible in an inner lambda"),
        ("(define (a x) (lambda (y) (lambda (z) (+ x (* 10 y) (* 100 z))))) (((a 1) 2) 3)", "value 321", "three nested frames"),
        ("((lambda (car) (car 5)) (lambda (x) (+ x 1)))", "value 6", "a parameter shadows a builtin"),
        ("(define y 1) (define (f) (define y 2) y) (+ (f) y)", "value 3", "an internal definition shadows a global inside the body only"),
        // ... every builtin name is an ordinary variable: rebound, the user's binding is what a call (also the test of an if) uses
        ("(define (pick not x) (+ 1 (if (not x) 10 20))) (pick (lambda (v) v) 5)", "value 11", "`not` rebound by a parameter, as the test of an if in operand position"),
        ("(define (pick not x) (+ 1 (if (not x) 10 20))) (pick (lambda (v) v) #f)", "value 21", "`not` rebound by a parameter (false case)"),
        ("(define (g x) (define (not v) v) (car (cons (if (not x) 'yes 'no) 0))) (g 7)", "value yes", "`not` rebound by an internal definition"),
        ("(define (h not) (cons (if (not 3) 'taken 'skipped) '())) (h (lambda (v) v))", "value (taken)", "`not` rebound, if as an operand"),
        ("(define (p car) (+ 0 (if (car 1) 1 2))) (p (lambda (v) #f))", "value 2", "`car` rebound as the test's operator"),
        ("(define (q eqv?) (+ 0 (if (eqv? 1 1) 1 2))) (q (lambda (a b) #f))", "value 2", "`eqv?` rebound as the test's operator"),
        ("(define (r + a) (+ a 1)) (r (lambda (a b) (* a 10)) 4)", "value 40", "`+` rebound by a parameter"),
        ("(define (s if-like) (if-like 1 2)) (s (lambda (a b) b))", "value 2", "an ordinary name in operator position"),
        ("(define x 1) (define (get) x) (define x 2) (get)", "value 2", "a procedure sees the current value of a global"),
        // ---- parameters: fixed, rest, define sugar
        ("((lambda (x y) (- x y)) 5 3)", "value 2", "arguments bind to parameters in order"),
        ("((lambda (a b c) (cons a (cons b (cons c '())))) 1 2 3)", "value (1 2 3)", "three parameters in order"),
        ("((lambda (a . r) r) 1 2 3)", "value (2 3)", "the rest parameter is the list of the remaining arguments"),
        ("((lambda (a . r) r) 1)", "value ()", "an empty rest list"),
        ("((lambda (a . r) a) 1 2 3)", "value 1", "the fixed parameter before a rest parameter"),
        ("((lambda (a b . r) (cons b r)) 1 2 3 4)", "value (2 3 4)", "two fixed parameters and a rest parameter"),
        ("((lambda r r) 1 2)", "value (1 2)", "only a rest parameter"),
        ("((lambda r r))", "value ()", "only a rest parameter, no argument"),
        ("(define (f a . r) (cons a r)) (f 1 2 3)", "value (1 2 3)", "define sugar with a rest parameter"),
        ("(define (f . r) r) (f 1 2)", "value (1 2)", "define sugar with only a rest parameter"),
        ("(define (sq x) (* x x)) (define sq2 (lambda (x) (* x x))) (= (sq 7) (sq2 7))", "value #t", "define sugar and lambda are equivalent"),
        ("(define (sq x) (* x x)) (sq 7)", "value 49", "define sugar"),
        ("(define sq (lambda (x) (* x x))) (sq 7)", "value 49", "define with a lambda"),
        ("(define (f list) list) (f 3)", "value 3", "a parameter named like a library procedure"),
        ("((lambda (x) x))", "error", "too few arguments"),
        ("((lambda (x) x) 1 2)", "error", "too many arguments"),
        ("((lambda (a b . r) a) 1)", "error", "too few arguments before a rest parameter"),
        // ---- if: only #f is false; only the selected arm is evaluated
        ("(if 0 'yes 'no)", "value yes", "0 is true"),
        ("(if '() 'yes 'no)", "value yes", "the empty list is true"),
        ("(if \"\" 'yes 'no)", "value yes", "the empty string is true"),
        ("(if #f 'yes 'no)", "value no", "#f is false"),
        ("(if #t 'yes 'no)", "value yes", "#t is true"),
        ("(if (not 1) 'yes 'no)", "value no", "(not 1) is #f"),
        ("(if (lambda () #f) 'yes 'no)", "value yes", "a procedure is true"),
        ("(if #t 1)", "value 1", "if without alternative, test true"),
        ("(define n 0) (define (tick) (set! n (+ n 1)) n) (if #t 'a (tick)) n", "value 0", "the arm not selected is not evaluated"),
        ("(define n 0) (define (tick) (set! n (+ n 1)) n) (if #f (tick) 'b) n", "value 0", "the arm not selected is not evaluated (consequent)"),
        ("(define n 0) (define (tick) (set! n (+ n 1)) #f) (if (tick) 1 2) n", "value 1", "the test is evaluated exactly once"),
        ("(define (f x) (if (< x 0) (- 0 x) x)) (+ (f -3) (f 4))", "value 7", "if in tail position of a body"),
        ("(define (f x) (if x 1 2)) (f 7)", "value 1", "a tail-position if: a number is true"),
        ("(define (f x) (if x 1 2)) (f '())", "value 1", "a tail-position if: the empty list is true"),
        ("(define (f x) (if x 1 2)) (f #f)", "value 2", "a tail-position if: #f is false"),
        ("(define (f x) (if x 1 2)) (= (f 0) (+ 0 (if 0 1 2)))", "value #t", "tail and non-tail if agree"),
        ("(define (loop n acc) (if (if (> n 0) n #f) (loop (- n 1) (+ acc 2)) acc)) (loop 100 0)", "value 200", "a loop whose test yields a number"),
        // ---- calls: every operand exactly once, before the call
        ("(define n 0) (define (tick) (set! n (+ n 1)) n) (define (f a b) (+ a b)) (f (tick) (tick)) n", "value 2", "every operand is evaluated exactly once"),
        ("(define n 0) (define (tick) (set! n (+ n 1)) n) (define (f a b) n) (f (tick) (tick))", "value 2", "operands are evaluated before the body runs"),
        ("(define n 0) (define (tick) (set! n (+ n 1)) n) (define (k) (lambda (x) x)) ((k) (tick)) n", "value 1", "an operator expression and its operand, once each"),
        ("(+ (* 2 3) (- 10 (/ 8 2)))", "value 12", "nested applications"),
        ("(1 2)", "error", "applying a number"),
        // ---- bodies and internal definitions
        ("((lambda () 1 2 3))", "value 3", "a body returns its last expression"),
        ("(define (f x) (define y (* x 2)) (define (g z) (+ y z)) (g 1)) (f 5)", "value 11", "internal definitions see the parameters and earlier definitions"),
        ("(define (f n) (define (ev? n) (if (= n 0) #t (od? (- n 1)))) (define (od? n) (if (= n 0) #f (ev? (- n 1)))) (ev? n)) (f 10)", "value #t", "internal definitions are visible to the whole body (mutual recursion)"),
        ("(define (f) (define inner 5) inner) (f) inner", "error", "an internal definition is not visible outside"),
        // ... also in a procedure WITHOUT parameters (its frame is empty when the first internal definition is evaluated)
        ("(define (f) (define (g) (h)) (define (h) 42) (g)) (f)", "value 42", "internal definitions of a thunk see each other"),
        ("(define (f) (define (count n) (if (= n 0) 0 (+ 1 (count (- n 1))))) (count 3)) (f)", "value 3", "an internal procedure of a thunk is recursive"),
        ("(define (h) 1) (define (f) (define (g) (h)) (define (h) 2) (g)) (f)", "value 2", "an internal definition of a thunk shadows a global for its siblings"),
        ("(define (outer h) ((lambda () (define g (lambda () (h))) (define h (lambda () 20)) (g)))) (outer (lambda () 10))", "value 20", "the innermost binding, through an empty frame"),
        ("(define (f) (define a 1) (define (g) (define b 2) (lambda () (+ a b))) ((g))) (f)", "value 3", "closures through two parameterless frames"),
        ("(apply (lambda (a b c) (cons a (cons b c))) 1 2 3 '())", "value (1 2 . 3)", "apply keeps the order of three leading arguments"),
        ("(define (f) (define inner 5) inner) (f)", "value 5", "an internal definition inside"),
        // ---- higher-order procedures, apply
        ("(define (compose f g) (lambda (x) (f (g x)))) ((compose (lambda (x) (* x 2)) (lambda (x) (+ x 1))) 5)", "value 12", "compose"),
        ("(define (twice f) (lambda (x) (f (f x)))) (((twice twice) (lambda (x) (+ x 1))) 0)", "value 4", "order 3"),
        ("((car (cons (lambda (x) (* x x)) '())) 6)", "value 36", "a procedure taken out of a list"),
        ("(define (f . xs) (lambda (y) (cons y xs))) ((f 1 2) 0)", "value (0 1 2)", "a closure over a rest parameter"),
        ("(apply + (cons 1 (cons 2 '())))", "value 3", "apply a builtin"),
        ("(apply (lambda (a . r) r) '(1 2 3))", "value (2 3)", "apply a lambda with a rest parameter"),
        ("(define (f a b) (- a b)) (= (f 9 4) (apply f '(9 4)))", "value #t", "direct call and apply agree"),
        ("(apply + 1 2 '(3 4))", "value 10", "apply with arguments before the list"),
        ("(apply (lambda (a b c) (cons a (cons b (cons c '())))) 1 '(2 3))", "value (1 2 3)", "apply keeps the order: fixed arguments, then the list's elements"),
        ("(apply (lambda r r) '())", "value ()", "apply to the empty list"),
        ("(apply (lambda r r) 1 2 '())", "value (1 2)", "apply with an empty last list"),
        ("(apply - '(10 3))", "value 7", "apply a builtin to a list"),
        ("(define (fact n) (if (= n 0) 1 (* n (fact (- n 1))))) (fact 10)", "value 3628800", "recursion"),
    ];
    for (program, want, what) in cases.iter() {
        n += 1;
        let got = last_result(program);
        if got != *want && bad.len() < 5 { bad.push(format!("{} -- {:?} -> {:?}, expected {:?}", what, program, got, want)); }
    }
    // quote and self-evaluating literals
    let literals: [(&str, &str); 12] = [
        ("(quote a)", "value a"), ("'(1 (2 3))", "value (1 (2 3))"), ("(car '((a b) c))", "value (a b)"), ("(quote ())", "value ()"),
        ("42", "value 42"), ("-7", "value -7"), ("#t", "value #t"), ("#f", "value #f"), ("(eqv? #\\a (car (cons #\\a 1)))", "value #t"), ("1/2", "value 1/2"),
        ("(cdr '(1 . 2))", "value 2"), ("(eqv? 'a (car '(a)))", "value #t"),
    ];
    for (program, want) in literals.iter() {
        n += 1;
        let got = last_result(program);
        if got != *want && bad.len() < 5 { bad.push(format!("{:?} -> {:?}, expected {:?}", program, got, want)); }
    }
    if bad.is_empty() {
        println!("VERIF-NATIVE: ok {} core programs: lexical scope, parameters (fixed, rest, define sugar), if (only #f is false), operands once, internal definitions, higher-order procedures and apply give the value R7RS assigns", n);
    } else {
        println!("VERIF-NATIVE: disagree {}", bad.join(" ; "));
    }
}
