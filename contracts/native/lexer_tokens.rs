// Native (cfg verif_replay) units for C06 / the Lexer -- NOT proof.
//  * verif_native_lexer_token_witness: witness search used when a Verus obligation of unit lexer_tok fails: every text of
//    length <= 5 over a 14-character alphabet is tokenised by the real Lexer; identifier and number tokens must end at a
//    delimiter (or the end of the text), an identifier's / a real's text must be the characters it was read from, and
//    replacing every blank by other atmosphere (tab + newline, or a comment line) must not change the token data.
//  * verif_native_hash_token_known: demonstrates the KNOWN FINDING hash-token-not-delimited ("#t1" is two tokens).

fn is_delim(c: char) -> bool { matches!(c, ' ' | '\t' | '\n' | '\r' | '(' | ')' | '"' | ';' | '|') }

fn lex(text: &str) -> Vec<std::result::Result<(TokenData, usize), String>> {
    // token data with the number of characters consumed when it was produced (single-line texts: column - 1)
    Lexer::from_char_stream(text.chars())
        .map(|r| match r {
            Ok(t) => Ok((t.data, t.location.map(|l| l[1] as usize - 1).unwrap_or(0))),
            Err(e) => Err(format!("{}", e.data)),
        })
        .collect()
}

const ALPHABET: [char; 14] = ['1', 'a', '/', 'e', '.', '+', '(', ')', ' ', 'x', '0', '-', '"', '\''];

#[test]
fn verif_native_lexer_token_witness() {
    let mut n = 0u64;
    let mut bad: Vec<String> = Vec::new();
    let mut idx: Vec<usize> = vec![0];
    'outer: loop {
        let text: String = idx.iter().map(|&i| ALPHABET[i]).collect();
        let chars: Vec<char> = text.chars().collect();
        n += 1;
        let toks = lex(&text);
        let mut start = 0usize;
        for t in toks.iter() {
            match t {
                Ok((data, end)) => {
                    let end = *end;
                    let next = chars.get(end).cloned();
                    let self_delimiting = end > 0 && matches!(chars[end - 1], '"' | '|' | '(' | ')');
                    let needs_delim = match data {
                        TokenData::Identifier(_) => !self_delimiting,
                        TokenData::Primitive(Primitive::Integer(_)) | TokenData::Primitive(Primitive::Rational(..))
                        | TokenData::Primitive(Primitive::Real(_)) => true,
                        _ => false,
                    };
                    if needs_delim && !next.map(is_delim).unwrap_or(true) && bad.len() < 4 {
                        bad.push(format!("{:?}: token {:?} ends before {:?}, which is not a delimiter", text, data, next.unwrap()));
                    }
                    // the text of an identifier / a real is the characters it was read from (atmosphere in front skipped)
                    let mut s = start;
                    while s < end && matches!(chars[s], ' ') { s += 1; }
                    let slice: String = chars[s..end].iter().collect();
                    match data {
                        TokenData::Identifier(name) if !self_delimiting => if *name != slice && bad.len() < 4 {
                            bad.push(format!("{:?}: identifier {:?} read from {:?}", text, name, slice));
                        },
                        TokenData::Primitive(Primitive::Real(lit)) => if *lit != slice && bad.len() < 4 {
                            bad.push(format!("{:?}: real literal {:?} read from {:?}", text, lit, slice));
                        },
                        TokenData::Primitive(Primitive::Integer(v)) => if slice.parse::<i32>().ok() != Some(*v) && bad.len() < 4 {
                            bad.push(format!("{:?}: integer {:?} read from {:?}", text, v, slice));
                        },
                        _ => {}
                    }
                    start = end;
                }
                Err(_) => break,
            }
        }
        // atmosphere invariance (only for texts without a string: a blank inside a string is not atmosphere)
        if text.contains(' ') && !text.contains('"') {
            let data = |v: &Vec<std::result::Result<(TokenData, usize), String>>| -> Vec<String> {
                v.iter().map(|t| match t { Ok((d, _)) => format!("{:?}", d), Err(e) => format!("ERR {}", e) }).collect()
            };
            let base = data(&toks);
            for alt in [" \t\n", " ;x\n", "\r\n  "] {
                let other = data(&Lexer::from_char_stream(text.replace(' ', alt).chars())
                    .map(|r| match r { Ok(t) => Ok((t.data, 0)), Err(e) => Err(format!("{}", e.data)) }).collect());
                if other != base && bad.len() < 4 {
                    bad.push(format!("{:?}: tokens {:?}, but {:?} with every blank replaced by {:?}", text, base, other, alt));
                }
            }
        }
        let mut k = idx.len();
        loop {
            if k == 0 {
                if idx.len() == 5 { break 'outer; }
                idx = vec![0; idx.len() + 1];
                break;
            }
            k -= 1;
            if idx[k] + 1 < ALPHABET.len() { idx[k] += 1; for j in k + 1..idx.len() { idx[j] = 0; } break; }
        }
    }
    // a dot followed by a delimiter (or the end of the text) is the dot of a dotted pair, whatever the delimiter
    for d in [" ", "\t", "\n", "\r", "(", ")", "\"x\"", ";c\n", "|x|", ""] {
        let text = format!("(a .{} b)", d);
        n += 1;
        let toks = lex(&text);
        if !matches!(toks.get(2), Some(Ok((TokenData::Period, _)))) && bad.len() < 4 {
            bad.push(format!("{:?}: third token {:?}, expected the dot token", text, toks.get(2)));
        }
    }
    // peculiar identifiers (R7RS 7.1.1) and identifiers with digits are single identifier tokens
    for id in ["+", "-", "...", "+a", "-a1", "->x2", "->utf8", "+a1+", "--1", "+@1", "a1", "x->y2", "!5", "<=?", "a.b1"] {
        for (pre, post) in [("", ""), ("(", ")"), (" ", "\n"), ("'", " ;c")] {
            let text = format!("{}{}{}", pre, id, post);
            n += 1;
            let toks = lex(&text);
            let want_at = if pre == "(" || pre == "'" { 1 } else { 0 };
            match toks.get(want_at) {
                Some(Ok((TokenData::Identifier(name), _))) if name == id => {}
                other => if bad.len() < 4 { bad.push(format!("{:?}: token {} is {:?}, expected the identifier {:?}", text, want_at, other, id)); },
            }
        }
    }
    // string literals: every character stands for itself, the mnemonic escapes for the characters R7RS assigns
    let escapes: [(char, char); 8] = [('a', '\u{7}'), ('b', '\u{8}'), ('t', '\u{9}'), ('n', '\n'), ('r', '\r'), ('"', '"'), ('\\', '\\'), ('|', '|')];
    for (e, want) in escapes.iter() {
        for (pre, post) in [("", ""), ("x", "y"), ("(", ";"), (" ", "|")] {
            let text = format!("\"{}\\{}{}\" z", pre, e, post);
            n += 1;
            let expected = format!("{}{}{}", pre, want, post);
            match lex(&text).first() {
                Some(Ok((TokenData::Primitive(Primitive::String(got)), _))) if *got == expected => {}
                other => if bad.len() < 4 { bad.push(format!("{:?}: string token {:?}, expected contents {:?}", text, other, expected)); },
            }
        }
    }
    // every character other than " and \ stands for itself -- also the delimiters, a raw line break and a tab
    for c in ['a', 'Z', '0', ' ', '\t', '\n', '\r', '(', ')', ';', '|', '\'', '#', '.', ',', '`', '\u{e9}'] {
        for (pre, post) in [("", ""), ("x", "y")] {
            let text = format!("\"{}{}{}\" z", pre, c, post);
            n += 1;
            let expected = format!("{}{}{}", pre, c, post);
            match lex(&text).first() {
                Some(Ok((TokenData::Primitive(Primitive::String(got)), _))) if *got == expected => {}
                other => if bad.len() < 4 { bad.push(format!("{:?}: string token {:?}, expected contents {:?}", text, other, expected)); },
            }
        }
    }
    for text in ["\"ab", "\"a\\", "\"a\\q\""] {
        n += 1;
        if !matches!(lex(text).first(), Some(Err(_))) && bad.len() < 4 { bad.push(format!("{:?}: an unterminated string / unknown escape must be an error", text)); }
    }
    if bad.is_empty() {
        println!("VERIF-NATIVE: ok {} texts: identifier and number tokens end at delimiters, carry the text they were read from, and do not depend on the kind of atmosphere", n);
    } else {
        println!("VERIF-NATIVE: disagree {}", bad.join(" ; "));
    }
}

#[test]
fn verif_native_hash_token_known() {
    // KNOWN FINDING hash-token-not-delimited: "#t1" must not be the boolean #t followed by the number 1
    let toks = lex("#t1");
    let two = toks.len() == 2 && matches!(toks[0], Ok((TokenData::Primitive(Primitive::Boolean(true)), _)));
    let chars = lex("#\\ab");
    let two_c = chars.len() == 2 && matches!(chars[0], Ok((TokenData::Primitive(Primitive::Character('a')), _)));
    if two || two_c {
        println!("VERIF-NATIVE: disagree \"#t1\" -> {} tokens, \"#\\ab\" -> {} tokens (each should be one token or an error)", toks.len(), chars.len());
    } else {
        println!("VERIF-NATIVE: ok #t1 and #\\ab are no longer split into two tokens");
    }
}

#[test]
fn verif_native_sign_dot_known() {
    // KNOWN FINDING sign-dot-identifier-rejected: R7RS reads +.a and -.x as peculiar identifiers; this lexer commits to a
    // number as soon as a sign is followed by a dot (one character of look-ahead) and then rejects the letter
    let a = lex("+.a");
    let b = lex("(-.x 1)");
    let ok_a = matches!(a.first(), Some(Ok((TokenData::Identifier(n), _))) if n == "+.a");
    let ok_b = matches!(b.get(1), Some(Ok((TokenData::Identifier(n), _))) if n == "-.x");
    if ok_a && ok_b {
        println!("VERIF-NATIVE: ok +.a and -.x are read as identifiers");
    } else {
        println!("VERIF-NATIVE: disagree \"+.a\" -> {:?}, \"(-.x 1)\" -> {:?} (each should contain the identifier)", a.first(), b.get(1));
    }
}
