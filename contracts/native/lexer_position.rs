// Native (cfg verif_replay) witness search for C15 / the Lexer's position bookkeeping -- NOT proof.
// For every text of length <= 6 over a 9-character alphabet: the locations of the tokens the real Lexer
// produces must be positions pos_after((1,1), p) of increasing prefixes p of the text.

fn pos_after(text: &[char]) -> (u32, u32) {
    let mut p = (1u32, 1u32);
    for &c in text {
        if c == '\n' { p = (p.0 + 1, 1); } else { p = (p.0, p.1 + 1); }
    }
    p
}

const ALPHABET: [char; 9] = ['a', '(', ')', ';', '\n', '\r', ' ', '"', '1'];

#[test]
fn verif_native_lexer_position_witness() {
    let mut n = 0u64;
    let mut bad: Vec<String> = Vec::new();
    let mut idx: Vec<usize> = Vec::new();
    'outer: loop {
        let text: Vec<char> = idx.iter().map(|&i| ALPHABET[i]).collect();
        n += 1;
        let mut from = 0usize;
        for tok in Lexer::from_char_stream(text.iter().cloned()) {
            match tok {
                Ok(t) => {
                    let loc = t.location.map(|l| (l[0], l[1]));
                    let mut found = None;
                    for k in from..=text.len() {
                        if Some(pos_after(&text[..k])) == loc { found = Some(k); break; }
                    }
                    match found {
                        Some(k) => from = k,
                        None => {
                            if bad.len() < 4 {
                                bad.push(format!("{:?}: token {:?} located at {:?}, which is not the position after any later prefix", text.iter().collect::<String>(), t.data, loc));
                            }
                            break;
                        }
                    }
                }
                Err(_) => break,
            }
        }
        let mut k = idx.len();
        loop {
            if k == 0 {
                if idx.len() == 6 { break 'outer; }
                idx = vec![0; idx.len() + 1];
                break;
            }
            k -= 1;
            if idx[k] + 1 < ALPHABET.len() { idx[k] += 1; for j in k + 1..idx.len() { idx[j] = 0; } break; }
        }
    }
    if bad.is_empty() {
        println!("VERIF-NATIVE: ok {} texts: every token location is the position after a prefix of the text, in order", n);
    } else {
        println!("VERIF-NATIVE: disagree {}", bad.join(" ; "));
    }
}
