// Contracts for src/parser/macros.rs (C04): SyntaxPattern::match_datum on scalar (non-list) patterns.
// Full-domain symbolic payloads, concrete kinds.  #[kani::unwind(2)] with unwinding assertions ON: CBMC's
// symbolic execution does not prune the identifier arm (SipHash loop over a String) by constant propagation
// alone and would unwind it forever; with the bound, the unwinding assertions PASS, i.e. no loop iteration is
// reachable on these arms => the harnesses are complete proofs for the arms they cover (measured 34 s each).
// The two hash containers in the signature are only passed through on these arms, but merely creating
// them needs std's RandomState::new (getrandom via a raw syscall, unsupported by Kani): stubbed with
// fixed keys -- irrelevant here, no hashing is performed on these arms (listed as an assumption).
use std::collections::{HashMap, HashSet};

pub fn fixed_random_state() -> std::collections::hash_map::RandomState {
    // RandomState is { k0: u64, k1: u64 }
    unsafe { std::mem::transmute::<(u64, u64), std::collections::hash_map::RandomState>((0u64, 0u64)) }
}

/// scalar literal data of a CONCRETE kind with a symbolic payload: I = Integer, B = Boolean, C = Character,
/// Q = Rational (String and Real literals carry a String payload: outside Kani's practical range, stated)
fn draw_kind(s: &mut In, kind: char) -> Primitive {
    match kind {
        'I' => Primitive::Integer(s.i32()),
        'B' => Primitive::Boolean(s.bool()),
        'C' => Primitive::Character(s.char()),
        _ => {
            let a = s.i32();
            let b = s.u32();
            Primitive::Rational(a, b)
        }
    }
}
/// equality of two scalar literal data, spelled out (the spec side does not use Primitive's own ==)
fn scalar_equal(p: &Primitive, d: &Primitive) -> bool {
    match (p, d) {
        (Primitive::Integer(a), Primitive::Integer(b)) => a == b,
        (Primitive::Boolean(a), Primitive::Boolean(b)) => a == b,
        (Primitive::Character(a), Primitive::Character(b)) => a == b,
        (Primitive::Rational(a1, a2), Primitive::Rational(b1, b2)) => a1 == b1 && a2 == b2,
        _ => false,
    }
}

//@ expand K in II BB CC QQ IB CQ
//@ props C04
//@ role decisive
//@ unwind 2
//@ stub std::collections::hash_map::RandomState::new fixed_random_state
pub fn h_match_literal_datum_{K}(s: &mut In) -> HR {
    let p = draw_kind(s, '{K0}');
    let d = draw_kind(s, '{K1}');
    let equal = scalar_equal(&p, &d);
    let pattern: SyntaxPattern = SyntaxPatternBody::Primitive(p).no_locate();
    let datum: Datum = DatumBody::Primitive(d).no_locate();
    let literals: HashSet<String> = HashSet::new();
    let mut substitutions: HashMap<String, (Datum, Vec<Datum>)> = HashMap::new();
    let r = pattern.match_datum(&datum, 0, &literals, &mut substitutions);
    vcheck!("literal data match only equal data", matches!(r, Ok(b) if b == equal));
    vcheck!("a literal datum binds no pattern variable", substitutions.is_empty());
    Ok(())
}

//@ expand K in BI IC CI IQ QI BC CB BQ QB QC
//@ props C04
//@ role decisive
//@ unwind 2
//@ tier thorough
//@ stub std::collections::hash_map::RandomState::new fixed_random_state
pub fn h_match_literal_datum_{K}(s: &mut In) -> HR {
    let p = draw_kind(s, '{K0}');
    let d = draw_kind(s, '{K1}');
    let equal = scalar_equal(&p, &d);
    let pattern: SyntaxPattern = SyntaxPatternBody::Primitive(p).no_locate();
    let datum: Datum = DatumBody::Primitive(d).no_locate();
    let literals: HashSet<String> = HashSet::new();
    let mut substitutions: HashMap<String, (Datum, Vec<Datum>)> = HashMap::new();
    let r = pattern.match_datum(&datum, 0, &literals, &mut substitutions);
    vcheck!("literal data match only equal data", matches!(r, Ok(b) if b == equal));
    vcheck!("a literal datum binds no pattern variable", substitutions.is_empty());
    Ok(())
}

//@ expand K in I Q
//@ props C04
//@ role decisive
//@ unwind 2
//@ stub std::collections::hash_map::RandomState::new fixed_random_state
pub fn h_match_underscore_{K}(s: &mut In) -> HR {
    let d = draw_kind(s, '{K0}');
    let pattern: SyntaxPattern = SyntaxPatternBody::Underscore.no_locate();
    let datum: Datum = DatumBody::Primitive(d).no_locate();
    let literals: HashSet<String> = HashSet::new();
    let mut substitutions: HashMap<String, (Datum, Vec<Datum>)> = HashMap::new();
    let r = pattern.match_datum(&datum, 0, &literals, &mut substitutions);
    vcheck!("_ matches any (scalar) form", matches!(r, Ok(true)));
    vcheck!("_ binds nothing", substitutions.is_empty());
    Ok(())
}

//@ expand K in I C
//@ props C04
//@ role decisive
//@ unwind 2
//@ stub std::collections::hash_map::RandomState::new fixed_random_state
pub fn h_match_vector_pattern_vs_{K}(s: &mut In) -> HR {
    let d = draw_kind(s, '{K0}');
    let datum: Datum = DatumBody::Primitive(d).no_locate();
    let literals: HashSet<String> = HashSet::new();
    let mut substitutions: HashMap<String, (Datum, Vec<Datum>)> = HashMap::new();
    let vec_pattern: SyntaxPattern = SyntaxPatternBody::Vector(Vec::new()).no_locate();
    let r = vec_pattern.match_datum(&datum, 0, &literals, &mut substitutions);
    vcheck!("a vector pattern does not match a scalar datum", matches!(r, Ok(false)));
    Ok(())
}
