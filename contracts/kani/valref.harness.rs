// C03 (vector half): ValueReference<Vec<T>> -- the type Value::Vector is built on -- at T = u8.
// BOUNDED: vectors of length 3, #[kani::unwind]; reported under `bounded`, never counted as proved.
type VR = ValueReference<Vec<u8>>;

fn is_requires_mutable<T>(r: &Result<T>) -> bool {
    matches!(r, Err(Located { data: ErrorData::Logic(LogicError::RequiresMutable(_)), .. }))
}

//@ props C03
//@ role decisive
//@ unwind 6
pub fn h_valref_alias_sees_write(s: &mut In) -> HR {
    let (x0, x1, x2) = (s.u8(), s.u8(), s.u8());
    let i = s.u8() as usize;
    let w = s.u8();
    vassume!(i < 3);
    let a: VR = ValueReference::new_mutable(vec![x0, x1, x2]);
    let b = a.clone();
    vcheck!("a clone of a vector reference is the same object (ptr_eq)", a.ptr_eq(&b) && b.ptr_eq(&a));
    match b.as_mut() {
        Ok(mut guard) => guard[i] = w,
        Err(_) => vcheck!("a mutable vector can be mutated", false),
    }
    let seen = a.as_ref();
    vcheck!("a write through one alias is seen through the other", seen[i] == w);
    vcheck!("the other elements are unchanged",
        (i == 0 || seen[0] == x0) && (i == 1 || seen[1] == x1) && (i == 2 || seen[2] == x2) && seen.len() == 3);
    Ok(())
}

//@ props C03
//@ role decisive
//@ unwind 6
pub fn h_valref_distinct_vectors_independent(s: &mut In) -> HR {
    let (x0, x1, x2) = (s.u8(), s.u8(), s.u8());
    let i = s.u8() as usize;
    let w = s.u8();
    vassume!(i < 3);
    let a: VR = ValueReference::new_mutable(vec![x0, x1, x2]);
    let c: VR = ValueReference::new_mutable(vec![x0, x1, x2]);
    vcheck!("two separately created vectors are distinct objects", !a.ptr_eq(&c) && !c.ptr_eq(&a));
    match a.as_mut() {
        Ok(mut guard) => guard[i] = w,
        Err(_) => vcheck!("a mutable vector can be mutated", false),
    }
    let other = c.as_ref();
    vcheck!("a write to one vector is not seen through a distinct vector",
        other[0] == x0 && other[1] == x1 && other[2] == x2 && other.len() == 3);
    Ok(())
}

//@ props C03
//@ role decisive
//@ unwind 6
pub fn h_valref_literal_identity(s: &mut In) -> HR {
    // (that as_mut on a literal is the RequiresMutable error is PROVED in the Verus unit valref_mut; its error
    //  path formats the vector through core::fmt, which CBMC cannot finish)
    let (x0, x1, x2) = (s.u8(), s.u8(), s.u8());
    let lit: VR = ValueReference::new_immutable(vec![x0, x1, x2]);
    let m: VR = ValueReference::new_mutable(vec![x0, x1, x2]);
    let still = lit.as_ref();
    vcheck!("a literal's contents are what it was built from", still[0] == x0 && still[1] == x1 && still[2] == x2 && still.len() == 3);
    vcheck!("ptr_eq never relates a mutable and an immutable reference", !lit.ptr_eq(&m) && !m.ptr_eq(&lit));
    let lit2 = lit.clone();
    vcheck!("a clone of a literal vector is the same object", lit.ptr_eq(&lit2));
    let other: VR = ValueReference::new_immutable(vec![x0, x1, x2]);
    vcheck!("two separately created literal vectors are distinct objects", !lit.ptr_eq(&other));
    Ok(())
}
