// Twins (counterexample FINDERS, native grid search only -- `//@ nokani`: CBMC does not finish on these, measured) for the
// Verus unit base_folds: the n-ary builtins + - * / max min of base.rs against the left fold of the real binary operations.
type V = Value<f32>;
type N = Number<f32>;

fn draw_number(s: &mut In) -> N {
    let tag = s.u8();
    let a = s.i32();
    let b = s.i32();
    let f = s.f32();
    match tag % 3 {
        0 => Number::Integer(a),
        1 => Number::Rational(a, b),
        _ => Number::Real(f),
    }
}
fn wf(n: &N) -> bool {
    match n {
        Number::Rational(_, b) => *b > 0,
        _ => true,
    }
}
fn same(a: &N, b: &N) -> bool {
    match (a, b) {
        (Number::Integer(x), Number::Integer(y)) => x == y,
        (Number::Rational(x1, x2), Number::Rational(y1, y2)) => x1 == y1 && x2 == y2,
        (Number::Real(x), Number::Real(y)) => x.to_bits() == y.to_bits() || (x.is_nan() && y.is_nan()),
        _ => false,
    }
}
fn same_result(got: &Result<V>, expect: &Result<N>) -> bool {
    match (got, expect) {
        (Ok(Value::Number(g)), Ok(e)) => same(g, e),
        (Err(g), Err(e)) => g == e,
        _ => false,
    }
}
fn step(op: u8, a: N, x: N) -> Result<N> {
    match op {
        0 => Ok(a + x),
        1 => Ok(a - x),
        2 => Ok(a * x),
        3 => a / x,
        4 => { let o = upcast_oprands((a, x)); Ok(if a > x { o.lhs() } else { o.rhs() }) }
        _ => { let o = upcast_oprands((a, x)); Ok(if a < x { o.lhs() } else { o.rhs() }) }
    }
}
fn expected(op: u8, nums: &[N]) -> Result<N> {
    let (mut acc, rest): (N, &[N]) = match op {
        0 => (Number::Integer(0), nums),
        2 => (Number::Integer(1), nums),
        4 | 5 => (nums[0], &nums[1..]),
        _ => {
            if nums.len() == 1 {
                return step(op, Number::Integer(if op == 1 { 0 } else { 1 }), nums[0]);
            }
            (step(op, nums[0], nums[1])?, &nums[2..])
        }
    };
    for x in rest {
        acc = step(op, acc, *x)?;
    }
    Ok(acc)
}

//@ expand OP in 0add 1sub 2mul 3div 4max 5min
//@ props C09 C10 C07 C08
//@ role twin
//@ nokani
//@ grid 400000
//@ twin_of base_folds:{OP:1}
pub fn h_fold_{OP:1}(s: &mut In) -> HR {
    let n = (s.u8() % 4) as usize;
    let (x, y, z) = (draw_number(s), draw_number(s), draw_number(s));
    vassume!(wf(&x) && wf(&y) && wf(&z));
    let op: u8 = {OP0};
    vassume!(n >= 1 || op == 0 || op == 2);
    let nums = [x, y, z];
    let args: Vec<V> = nums[..n].iter().map(|v| Value::Number(*v)).collect();
    let got = match op {
        0 => add(args),
        1 => sub(args),
        2 => mul(args),
        3 => div(args),
        4 => max(args),
        _ => min(args),
    };
    vcheck!("the n-ary builtin is the left fold of the binary operation", same_result(&got, &expected(op, &nums[..n])));
    Ok(())
}

/// the relation of chain operator `op` on one adjacent pair, through Number's own (proved) comparison
fn pair_holds(op: u8, a: &N, b: &N) -> bool {
    match op {
        0 => a == b,
        1 => a > b,
        2 => a >= b,
        3 => a < b,
        _ => a <= b,
    }
}

// Twins (native only) for the Verus unit base_cmp: the five n-ary comparison chains are the conjunction of their adjacent pairs.
//@ expand OP in 0equals 1greater 2greater_equal 3less 4less_equal
//@ props C10
//@ role twin
//@ nokani
//@ grid 400000
//@ twin_of base_cmp:{OP:1}
pub fn h_chain_{OP:1}(s: &mut In) -> HR {
    let n = (s.u8() % 5) as usize;
    let (x, y, z, w) = (draw_number(s), draw_number(s), draw_number(s), draw_number(s));
    vassume!(wf(&x) && wf(&y) && wf(&z) && wf(&w));
    let op: u8 = {OP0};
    let nums = [x, y, z, w];
    let args: Vec<V> = nums[..n].iter().map(|v| Value::Number(*v)).collect();
    let got = match op {
        0 => equals(args),
        1 => greater(args),
        2 => greater_equal(args),
        3 => less(args),
        _ => less_equal(args),
    };
    let mut all = true;
    for i in 1..n {
        all = all && pair_holds(op, &nums[i - 1], &nums[i]);
    }
    vcheck!("the n-ary comparison is the conjunction of its adjacent pairs", matches!(got, Ok(Value::Boolean(b)) if b == all));
    Ok(())
}
