// ---- verif harness prelude (shared by every injected Kani/replay harness module) ----
// One harness body is compiled two ways:
//   cfg(kani):          inputs are kani::any(), vassume = kani::assume, vcheck = assert!   (the proof)
//   cfg(verif_replay):  inputs are the concrete bytes of a Kani counterexample, vassume / vcheck
//                       return early; run natively against the real functions     (the replay)
pub type HR = ::std::result::Result<(), String>;

#[allow(dead_code)]
pub trait Src {
    fn bytes(&mut self, n: usize) -> [u8; 8];
    fn u8(&mut self) -> u8;
    fn bool(&mut self) -> bool;
    fn i32(&mut self) -> i32;
    fn u32(&mut self) -> u32;
    fn f32(&mut self) -> f32;
    fn char(&mut self) -> char;
}

#[cfg(kani)]
pub struct In;
#[cfg(kani)]
impl Src for In {
    fn bytes(&mut self, _n: usize) -> [u8; 8] { [0; 8] }
    fn u8(&mut self) -> u8 { kani::any() }
    fn bool(&mut self) -> bool { kani::any() }
    fn i32(&mut self) -> i32 { kani::any() }
    fn u32(&mut self) -> u32 { kani::any() }
    fn f32(&mut self) -> f32 { kani::any() }
    fn char(&mut self) -> char { kani::any() }
}

#[cfg(verif_replay)]
pub struct In {
    pub vals: Vec<Vec<u8>>,
    pub pos: usize,
}
#[cfg(verif_replay)]
impl Src for In {
    fn bytes(&mut self, n: usize) -> [u8; 8] {
        let mut out = [0u8; 8];
        let v = self.vals.get(self.pos).cloned().unwrap_or_default();
        self.pos += 1;
        for i in 0..n.min(v.len()) { out[i] = v[i]; }
        out
    }
    fn u8(&mut self) -> u8 { self.bytes(1)[0] }
    fn bool(&mut self) -> bool { self.bytes(1)[0] != 0 }
    fn i32(&mut self) -> i32 { let b = self.bytes(4); i32::from_le_bytes([b[0], b[1], b[2], b[3]]) }
    fn u32(&mut self) -> u32 { let b = self.bytes(4); u32::from_le_bytes([b[0], b[1], b[2], b[3]]) }
    fn f32(&mut self) -> f32 { let b = self.bytes(4); f32::from_le_bytes([b[0], b[1], b[2], b[3]]) }
    fn char(&mut self) -> char {
        let b = self.bytes(4);
        char::from_u32(u32::from_le_bytes([b[0], b[1], b[2], b[3]])).unwrap_or('\u{fffd}')
    }
}

#[allow(unused_macros)]
macro_rules! vassume {
    ($c:expr) => {{
        #[cfg(kani)]
        kani::assume($c);
        #[cfg(verif_replay)]
        if !($c) {
            return Err("ASSUMPTION-NOT-MET".to_string());
        }
    }};
}
#[allow(unused_macros)]
macro_rules! vcheck {
    ($name:expr, $c:expr) => {{
        #[cfg(kani)]
        assert!($c, $name);
        #[cfg(verif_replay)]
        if !($c) {
            return Err(format!("FAILED {}", $name));
        }
    }};
}
#[allow(unused_macros)]
macro_rules! vcover {
    ($name:expr, $c:expr) => {{
        #[cfg(kani)]
        kani::cover!($c, $name);
    }};
}
