// ---- verif harness prelude (shared by every injected Kani/replay harness module) ----
// One harness body is compiled two ways:
//   cfg(kani):          inputs are kani::any(), vassume = kani::assume, vcheck = assert!   (the proof)
//   cfg(verif_replay):  inputs are the concrete bytes of a Kani counterexample, vassume / vcheck
//                       return early; run natively against the real functions     (the replay)
pub type HR = ::std::result::Result<(), String>;

#[allow(dead_code)]
pub trait Src {
    fn bytes(&mut self, n: usize) -> [u8; 8];
    fn u8(&mut self) -> u8;
    fn bool(&mut self) -> bool;
    fn i32(&mut self) -> i32;
    fn u32(&mut self) -> u32;
    fn f32(&mut self) -> f32;
    fn char(&mut self) -> char;
}

#[cfg(kani)]
pub struct In;
#[cfg(kani)]
impl Src for In {
    fn bytes(&mut self, _n: usize) -> [u8; 8] { [0; 8] }
    fn u8(&mut self) -> u8 { kani::any() }
    fn bool(&mut self) -> bool { kani::any() }
    fn i32(&mut self) -> i32 { kani::any() }
    fn u32(&mut self) -> u32 { kani::any() }
    fn f32(&mut self) -> f32 { kani::any() }
    fn char(&mut self) -> char { kani::any() }
}

#[cfg(verif_replay)]
pub struct In {
    pub vals: Vec<Vec<u8>>,
    pub pos: usize,
    /// grid mode (native witness search): every draw picks from a table of boundary values
    pub grid: bool,
    pub idx: Vec<usize>,
    pub radix: Vec<usize>,
    pub drawn: Vec<Vec<u8>>,
}
#[cfg(verif_replay)]
pub const GRID_I32: [i32; 19] = [0, 1, -1, 2, -2, 3, -3, 5, 7, 32767, -32767, 32768, 46341, 65536, -65536,
    i32::MAX, i32::MIN, i32::MAX - 1, i32::MIN + 1];
#[cfg(verif_replay)]
pub const GRID_U32: [u32; 9] = [0, 1, 2, 3, 7, 65536, 0x7fff_ffff, 0x8000_0000, u32::MAX];
#[cfg(verif_replay)]
pub const GRID_F32: [f32; 13] = [0.0, -0.0, 1.0, -1.5, 0.5, 1.0e10, f32::NAN, f32::INFINITY, 16777217.0, f32::NEG_INFINITY, 1.0e-8, 2.0e-8, 0.33333334];
#[cfg(verif_replay)]
pub const GRID_CHAR: [char; 6] = ['a', '(', ')', '\n', '"', '\u{3bb}'];
#[cfg(verif_replay)]
thread_local! {
    /// (radix per draw, bytes per draw) of the current grid run -- survives a panic inside the harness
    pub static GRID_LOG: std::cell::RefCell<(Vec<usize>, Vec<Vec<u8>>)> = std::cell::RefCell::new((Vec::new(), Vec::new()));
}
#[cfg(verif_replay)]
impl In {
    fn note(&mut self, bytes: Vec<u8>) {
        GRID_LOG.with(|l| l.borrow_mut().1.push(bytes.clone()));
        self.drawn.push(bytes);
    }
    pub fn replay(vals: Vec<Vec<u8>>) -> In {
        In { vals, pos: 0, grid: false, idx: Vec::new(), radix: Vec::new(), drawn: Vec::new() }
    }
    fn pick(&mut self, radix: usize) -> usize {
        if self.pos >= self.idx.len() {
            self.idx.push(0);
        }
        if self.pos >= self.radix.len() {
            self.radix.push(radix);
        }
        self.radix[self.pos] = radix;
        GRID_LOG.with(|l| l.borrow_mut().0.push(radix));
        let k = self.idx[self.pos] % radix;
        self.pos += 1;
        k
    }
}
#[cfg(verif_replay)]
impl Src for In {
    fn bytes(&mut self, n: usize) -> [u8; 8] {
        let mut out = [0u8; 8];
        let v = self.vals.get(self.pos).cloned().unwrap_or_default();
        self.pos += 1;
        for i in 0..n.min(v.len()) { out[i] = v[i]; }
        out
    }
    fn u8(&mut self) -> u8 {
        if self.grid { let v = self.pick(6) as u8; self.note(vec![v]); return v; }
        self.bytes(1)[0]
    }
    fn bool(&mut self) -> bool {
        if self.grid { let v = self.pick(2) == 1; self.note(vec![v as u8]); return v; }
        self.bytes(1)[0] != 0
    }
    fn i32(&mut self) -> i32 {
        if self.grid { let v = GRID_I32[self.pick(GRID_I32.len())]; self.note(v.to_le_bytes().to_vec()); return v; }
        let b = self.bytes(4); i32::from_le_bytes([b[0], b[1], b[2], b[3]])
    }
    fn u32(&mut self) -> u32 {
        if self.grid { let v = GRID_U32[self.pick(GRID_U32.len())]; self.note(v.to_le_bytes().to_vec()); return v; }
        let b = self.bytes(4); u32::from_le_bytes([b[0], b[1], b[2], b[3]])
    }
    fn f32(&mut self) -> f32 {
        if self.grid { let v = GRID_F32[self.pick(GRID_F32.len())]; self.note(v.to_le_bytes().to_vec()); return v; }
        let b = self.bytes(4); f32::from_le_bytes([b[0], b[1], b[2], b[3]])
    }
    fn char(&mut self) -> char {
        if self.grid { let v = GRID_CHAR[self.pick(GRID_CHAR.len())]; self.note((v as u32).to_le_bytes().to_vec()); return v; }
        let b = self.bytes(4);
        char::from_u32(u32::from_le_bytes([b[0], b[1], b[2], b[3]])).unwrap_or('\u{fffd}')
    }
}

#[allow(unused_macros)]
macro_rules! vassume {
    ($c:expr) => {{
        #[cfg(kani)]
        kani::assume($c);
        #[cfg(verif_replay)]
        if !($c) {
            return Err("ASSUMPTION-NOT-MET".to_string());
        }
    }};
}
#[allow(unused_macros)]
macro_rules! vcheck {
    ($name:expr, $c:expr) => {{
        #[cfg(kani)]
        assert!($c, $name);
        #[cfg(verif_replay)]
        if !($c) {
            return Err(format!("FAILED {}", $name));
        }
    }};
}
#[allow(unused_macros)]
macro_rules! vcover {
    ($name:expr, $c:expr) => {{
        #[cfg(kani)]
        kani::cover!($c, $name);
    }};
}
