    // ---- body of verif_replay_entry (shared by every injected harness module) ----
    if std::env::var("VERIF_REPLAY_GRID").is_ok() {
        // native witness search over a grid of boundary values (odometer over the draws)
        std::panic::set_hook(Box::new(|_| {}));
        let panic_only = std::env::var("VERIF_REPLAY_PANIC_ONLY").is_ok();
        let budget: u64 = std::env::var("VERIF_REPLAY_GRID").ok().and_then(|v| v.parse().ok()).unwrap_or(3_000_000);
        let mut idx: Vec<usize> = Vec::new();
        let mut radix: Vec<usize> = Vec::new();
        let mut tried: u64 = 0;
        let mut rng: u64 = 0x9E3779B97F4A7C15;
        loop {
            GRID_LOG.with(|l| *l.borrow_mut() = (Vec::new(), Vec::new()));
            let start = idx.clone();
            let res = std::panic::catch_unwind(std::panic::AssertUnwindSafe(move || {
                let mut s = In { vals: Vec::new(), pos: 0, grid: true, idx: start, radix: Vec::new(), drawn: Vec::new() };
                f(&mut s)
            }));
            tried += 1;
            let (rdx, drawn) = GRID_LOG.with(|l| l.borrow().clone());
            if !rdx.is_empty() { radix = rdx; }
            let bad = match &res {
                Ok(Ok(())) => None,
                Ok(Err(m)) if m == "ASSUMPTION-NOT-MET" => None,
                Ok(Err(_)) if panic_only => None,
                Ok(Err(m)) => Some(m.clone()),
                Err(_) => Some("PANIC".to_string()),
            };
            if let Some(m) = bad {
                let bytes = drawn.iter().map(|v| v.iter().map(|b| b.to_string()).collect::<Vec<_>>().join(",")).collect::<Vec<_>>().join(";");
                println!("VERIF-GRID-FOUND: bytes={} outcome={}", bytes, m);
                return;
            }
            if radix.is_empty() || tried >= budget { break; }
            if idx.len() < radix.len() { idx.resize(radix.len(), 0); }
            if tried < budget / 2 {
                // first half of the budget: odometer (exhaustive from the first draws on)
                let mut k = 0;
                loop {
                    if k == idx.len() { println!("VERIF-GRID-NONE: {} combinations (exhaustive)", tried); return; }
                    idx[k] += 1;
                    if idx[k] < radix[k] { break; }
                    idx[k] = 0;
                    k += 1;
                }
            } else {
                // second half: deterministic pseudo-random combinations (an odometer never reaches the later draws)
                for k in 0..idx.len() {
                    rng = rng.wrapping_mul(6364136223846793005).wrapping_add(1442695040888963407);
                    idx[k] = ((rng >> 33) as usize) % radix[k].max(1);
                }
            }
        }
        println!("VERIF-GRID-NONE: {} combinations", tried);
        return;
    }
    let res = std::panic::catch_unwind(move || { let mut s = In::replay(vals); f(&mut s) });
    match res {
        Ok(Ok(())) => println!("VERIF-REPLAY-OUTCOME: PASSED"),
        Ok(Err(m)) => println!("VERIF-REPLAY-OUTCOME: {}", m),
        Err(p) => {
            let msg = if let Some(s) = p.downcast_ref::<String>() { s.clone() } else if let Some(s) = p.downcast_ref::<&str>() { s.to_string() } else { "?".to_string() };
            println!("VERIF-REPLAY-OUTCOME: PANIC {}", msg)
        }
    }
