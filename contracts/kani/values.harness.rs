// Contracts for src/values.rs (C09, C10, C08-division, C07-arithmetic), R = f32.
// Every harness here is LOOP-FREE over FULL-DOMAIN symbolic scalars.
// role decisive: a complete proof of the named checks (obligations of the property).
// role twin:     counterexample FINDER for a Verus obligation (run only when that obligation fails; the
//                proof for all operands is Verus').  Twin spec arithmetic is i64 with wrapping products:
//                products of two i32 values are exact in i64, products of three are compared modulo 2^64
//                (a necessary condition of the integer equation).
// role known:    the one case of a recorded known finding, expected to FAIL.

type N = Number<f32>;

// ---------- drawing numbers (fixed draw order: tag:u8, a:i32, b:i32, f:f32) ----------
fn draw_number(s: &mut In) -> N {
    let tag = s.u8();
    let a = s.i32();
    let b = s.i32();
    let f = s.f32();
    match tag % 3 {
        0 => Number::Integer(a),
        1 => Number::Rational(a, b),
        _ => Number::Real(f),
    }
}
fn draw_exact(s: &mut In) -> N {
    let tag = s.u8();
    let a = s.i32();
    let b = s.i32();
    match tag % 2 {
        0 => Number::Integer(a),
        _ => Number::Rational(a, b),
    }
}

// ---------- specification vocabulary ----------
fn is_exact(n: &N) -> bool {
    !matches!(n, Number::Real(_))
}
/// representation invariant of exact numbers: a ratio has a positive denominator
fn wf(n: &N) -> bool {
    match n {
        Number::Rational(_, b) => *b > 0,
        _ => true,
    }
}
/// numerator / denominator of an exact number (Real: unused)
fn num(n: &N) -> i64 {
    match n {
        Number::Integer(a) => *a as i64,
        Number::Rational(a, _) => *a as i64,
        Number::Real(_) => 0,
    }
}
fn den(n: &N) -> i64 {
    match n {
        Number::Integer(_) => 1,
        Number::Rational(_, b) => *b as i64,
        Number::Real(_) => 1,
    }
}
const SMALL: i64 = 1 << 15;
/// the operand class for which the statement promises an exact result
fn small(n: &N) -> bool {
    -SMALL < num(n) && num(n) < SMALL && -SMALL < den(n) && den(n) < SMALL
}
/// conversion of an operand to binary32 as the statement prescribes
fn conv(n: &N) -> f32 {
    match n {
        Number::Integer(a) => *a as f32,
        Number::Rational(a, b) => (*a as f32) / (*b as f32),
        Number::Real(r) => *r,
    }
}
fn same_f32(a: f32, b: f32) -> bool {
    a.to_bits() == b.to_bits() || (a.is_nan() && b.is_nan())
}
fn real_is(n: &N, expect: f32) -> bool {
    match n {
        Number::Real(r) => same_f32(*r, expect),
        _ => false,
    }
}
/// r == x (+|-) y as rationals:  num(r)·den(x)·den(y) == (num(x)·den(y) ± num(y)·den(x))·den(r)
fn wm(a: i64, b: i64) -> i64 {
    a.wrapping_mul(b)
}
fn is_sum(r: &N, x: &N, y: &N, sign: i64) -> bool {
    wm(num(r), wm(den(x), den(y))) == wm(wm(num(x), den(y)).wrapping_add(wm(sign, wm(num(y), den(x)))), den(r))
}
fn is_product(r: &N, x: &N, y: &N) -> bool {
    wm(num(r), wm(den(x), den(y))) == wm(wm(num(x), num(y)), den(r))
}
/// r == x / y  (num(y) != 0):  num(r)·(den(x)·num(y)) == (num(x)·den(y))·den(r)
fn is_quotient(r: &N, x: &N, y: &N) -> bool {
    wm(num(r), wm(den(x), num(y))) == wm(wm(num(x), den(y)), den(r))
}
fn is_div_by_zero<T>(r: &Result<T>) -> bool {
    matches!(
        r,
        Err(Located { data: ErrorData::Logic(LogicError::DivisionByZero), .. })
    )
}

// ====================================================================================
// C09  +  -  *   on exact operands
// ====================================================================================
//@ props C09 C07
//@ role twin
//@ twin_of values_num:add values_num:from_ratio
pub fn h_add_exact(s: &mut In) -> HR {
    let x = draw_exact(s);
    let y = draw_exact(s);
    vassume!(wf(&x) && wf(&y));
    let r = x + y;
    // never a wrong exact number (all operands)
    vcheck!("add: an exact result is the exact sum", !is_exact(&r) || (wf(&r) && is_sum(&r, &x, &y, 1)));
    // always exact (operands below 2^15)
    vcheck!("add: small operands give an exact result", !(small(&x) && small(&y)) || is_exact(&r));
    vcover!("add: exact result", is_exact(&r));
    vcover!("add: inexact fallback", !is_exact(&r));
    Ok(())
}
//@ props C09 C07
//@ role twin
//@ twin_of values_num:sub values_num:from_ratio
pub fn h_sub_exact(s: &mut In) -> HR {
    let x = draw_exact(s);
    let y = draw_exact(s);
    vassume!(wf(&x) && wf(&y));
    let r = x - y;
    vcheck!("sub: an exact result is the exact difference", !is_exact(&r) || (wf(&r) && is_sum(&r, &x, &y, -1)));
    vcheck!("sub: small operands give an exact result", !(small(&x) && small(&y)) || is_exact(&r));
    vcover!("sub: exact result", is_exact(&r));
    Ok(())
}
//@ props C09 C07
//@ role twin
//@ twin_of values_num:mul values_num:from_ratio
pub fn h_mul_exact(s: &mut In) -> HR {
    let x = draw_exact(s);
    let y = draw_exact(s);
    vassume!(wf(&x) && wf(&y));
    let r = x * y;
    vcheck!("mul: an exact result is the exact product", !is_exact(&r) || (wf(&r) && is_product(&r, &x, &y)));
    vcheck!("mul: small operands give an exact result", !(small(&x) && small(&y)) || is_exact(&r));
    vcover!("mul: exact result", is_exact(&r));
    Ok(())
}
//@ props C09 C08 C07
//@ role twin
//@ twin_of values_num:div values_num:from_ratio values_num:check_division_by_zero
pub fn h_div_exact(s: &mut In) -> HR {
    let x = draw_exact(s);
    let y = draw_exact(s);
    vassume!(wf(&x) && wf(&y));
    let r = x / y;
    if num(&y) == 0 {
        vcheck!("div: division by exact zero is the DivisionByZero error", is_div_by_zero(&r));
    } else {
        match r {
            Ok(q) => {
                vcheck!("div: an exact result is the exact quotient", !is_exact(&q) || (wf(&q) && is_quotient(&q, &x, &y)));
                vcheck!("div: small operands give an exact result", !(small(&x) && small(&y)) || is_exact(&q));
                vcover!("div: exact result", is_exact(&q));
            }
            Err(_) => {
                vcheck!("div: a non-zero exact divisor never errors", false);
            }
        }
    }
    vcover!("div: zero divisor", num(&y) == 0);
    Ok(())
}
//@ props C09 C07
//@ role twin
//@ twin_of values_num:abs values_num:from_ratio
pub fn h_abs_exact(s: &mut In) -> HR {
    let x = draw_exact(s);
    vassume!(wf(&x));
    let r = x.abs();
    let ok = wf(&r)
        && num(&r) >= 0
        && (num(&r) * den(&x) == num(&x) * den(&r) || num(&r) * den(&x) == -(num(&x) * den(&r)));
    vcheck!("abs: an exact result is the exact absolute value", !is_exact(&r) || ok);
    vcheck!("abs: small operand gives an exact result", !small(&x) || is_exact(&r));
    Ok(())
}

// ====================================================================================
// C09  contagion: an inexact operand => binary32 result of the IEEE operation on the converted operands
// ====================================================================================
//@ props C09
//@ role decisive
pub fn h_unary_inexact(s: &mut In) -> HR {
    let f = s.f32();
    let x: N = Number::Real(f);
    vcheck!("abs: Real => IEEE abs", real_is(&x.abs(), f.abs()));
    vcheck!("floor: Real => IEEE floor", real_is(&x.floor(), f.floor()));
    vcheck!("ceiling: Real => IEEE ceil", real_is(&x.ceiling(), f.ceil()));
    Ok(())
}

// ====================================================================================
// C09  floor / ceiling / floor-quotient / floor-remainder
// ====================================================================================
//@ props C09 C07
//@ role twin
//@ twin_of values_num:floor
pub fn h_floor_exact(s: &mut In) -> HR {
    let x = draw_exact(s);
    vassume!(wf(&x));
    match x.floor() {
        Number::Integer(q) => {
            let q = q as i64;
            vcheck!("floor: q*b <= a < (q+1)*b", q * den(&x) <= num(&x) && num(&x) < (q + 1) * den(&x));
        }
        _ => vcheck!("floor: exact operand gives an exact integer", false),
    }
    Ok(())
}
//@ props C09 C07
//@ role twin
//@ twin_of values_num:ceiling
pub fn h_ceiling_exact(s: &mut In) -> HR {
    let x = draw_exact(s);
    vassume!(wf(&x));
    match x.ceiling() {
        Number::Integer(q) => {
            let q = q as i64;
            vcheck!("ceiling: (q-1)*b < a <= q*b", (q - 1) * den(&x) < num(&x) && num(&x) <= q * den(&x));
        }
        _ => vcheck!("ceiling: exact operand gives an exact integer", false),
    }
    Ok(())
}
/// q is the greatest integer not above n/d  (n, d exact, wf, d != 0):
///   with N = num(n)·den(d), D = den(n)·num(d):   D>0: q·D <= N < (q+1)·D ;  D<0: q·D >= N > (q+1)·D
fn is_floor_of_quotient(q: i64, n: &N, d: &N) -> bool {
    // |q| <= 2^31 and |dd| < 2^62: the products below need 128 bits
    let nn = (num(n) * den(d)) as i128;
    let dd = (den(n) * num(d)) as i128;
    let q = q as i128;
    if dd > 0 {
        q * dd <= nn && nn < (q + 1) * dd
    } else {
        q * dd >= nn && nn > (q + 1) * dd
    }
}
//@ props C09 C08 C07
//@ role twin
//@ twin_of values_num:floor_quotient
pub fn h_floor_quotient_exact(s: &mut In) -> HR {
    let n = draw_exact(s);
    let d = draw_exact(s);
    vassume!(wf(&n) && wf(&d));
    let r = n.floor_quotient(d);
    if num(&d) == 0 {
        vcheck!("floor-quotient: exact zero divisor is the DivisionByZero error", is_div_by_zero(&r));
        return Ok(());
    }
    match r {
        Ok(Number::Integer(q)) => {
            vcheck!("floor-quotient: q is the greatest integer not above n/d", is_floor_of_quotient(q as i64, &n, &d));
        }
        Ok(Number::Rational(..)) => vcheck!("floor-quotient: an exact result is an integer", false),
        Ok(Number::Real(_)) => vcheck!("floor-quotient: small operands give an exact result", !(small(&n) && small(&d))),
        Err(_) => vcheck!("floor-quotient: a non-zero exact divisor never errors", false),
    }
    Ok(())
}
//@ props C09 C07
//@ role twin
//@ twin_of values_num:floor_remainder
pub fn h_floor_remainder_exact(s: &mut In) -> HR {
    let n = draw_exact(s);
    let d = draw_exact(s);
    vassume!(wf(&n) && wf(&d) && small(&n) && small(&d) && num(&d) != 0);
    match (n.floor_quotient(d), n.floor_remainder(d)) {
        (Ok(Number::Integer(q)), Ok(r)) => {
            vcheck!("floor-remainder: r is exact for small operands", is_exact(&r) && wf(&r));
            // n = d*q + r   <=>   num(n)·den(d)·den(r) == (num(d)·q·den(r) + num(r)·den(d))·den(n)
            let q = q as i64;
            // small operands: every factor is below 2^31 and the products below fit i128 comfortably
            let (nn, nd, dn, dd, rn, rd, q) = (num(&n) as i128, den(&n) as i128, num(&d) as i128, den(&d) as i128,
                                               num(&r) as i128, den(&r) as i128, q as i128);
            vcheck!("floor-remainder: n = d*q + r", nn * dd * rd == (dn * q * rd + rn * dd) * nd);
        }
        _ => vcheck!("floor-remainder: small operands give exact q and r", false),
    }
    Ok(())
}

// ====================================================================================
// C10  comparison
// ====================================================================================
//@ props C10 C07
//@ role twin
//@ twin_of values_num:eq values_num:partial_cmp
pub fn h_cmp_exact(s: &mut In) -> HR {
    let x = draw_exact(s);
    let y = draw_exact(s);
    vassume!(wf(&x) && wf(&y));
    let l = num(&x) * den(&y);
    let r = num(&y) * den(&x);
    vcheck!("=  is mathematical equality on exact operands", (x == y) == (l == r));
    vcheck!("<  is the mathematical order on exact operands", (x < y) == (l < r));
    vcheck!(">  is the mathematical order on exact operands", (x > y) == (l > r));
    vcheck!("<= is the mathematical order on exact operands", (x <= y) == (l <= r));
    vcheck!(">= is the mathematical order on exact operands", (x >= y) == (l >= r));
    Ok(())
}
//@ props C10 C07
//@ role twin
//@ nokani
//@ twin_of values_num:eq values_num:partial_cmp
pub fn h_cmp_inexact(s: &mut In) -> HR {
    // "compare an exact with an inexact operand after converting the exact one to binary32": with at least one inexact
    // operand every comparison is the IEEE comparison of the converted operands (native grid only: GRID_F32 has the
    // infinities, NaN, -0.0 and two reals closer than f32::EPSILON)
    // (three draws per operand keep the grid exhaustive within the budget: 6 * 19 * 13 values each)
    let draw = |s: &mut In| -> N { let tag = s.u8(); let a = s.i32(); let f = s.f32();
        match tag % 3 { 0 => Number::Integer(a), 1 => Number::Rational(a, 2), _ => Number::Real(f) } };
    let x = draw(s);
    let y = draw(s);
    vassume!(!is_exact(&x) || !is_exact(&y));
    let conv = |n: &N| -> f32 { match n { Number::Integer(a) => *a as f32, Number::Rational(a, b) => *a as f32 / *b as f32, Number::Real(f) => *f } };
    let (a, b) = (conv(&x), conv(&y));
    vcheck!("=  with an inexact operand is IEEE == on the converted operands", (x == y) == (a == b));
    vcheck!("<  with an inexact operand is IEEE <", (x < y) == (a < b));
    vcheck!(">  with an inexact operand is IEEE >", (x > y) == (a > b));
    vcheck!("<= with an inexact operand is IEEE <=", (x <= y) == (a <= b));
    vcheck!(">= with an inexact operand is IEEE >=", (x >= y) == (a >= b));
    Ok(())
}
//@ props C10 C07
//@ role twin
//@ twin_of values_num:exact_eqv
pub fn h_eqv(s: &mut In) -> HR {
    let x = draw_number(s);
    let y = draw_number(s);
    vassume!(wf(&x) && wf(&y));
    let expect = if is_exact(&x) && is_exact(&y) {
        num(&x) * den(&y) == num(&y) * den(&x)
    } else if !is_exact(&x) && !is_exact(&y) {
        conv(&x) == conv(&y)
    } else {
        false
    };
    // the case listed in known_findings.toml is checked by h_eqv_known_int_vs_ratio
    vassume!(!mixed_int_ratio_equal(&x, &y));
    vcheck!("eqv? on numbers: same exactness and numerically equal", x.exact_eqv(&y) == expect);
    Ok(())
}
fn num_le(x: &N, y: &N) -> bool {
    // numeric x <= y, any mix, both wf, no NaN
    if is_exact(x) && is_exact(y) {
        num(x) * den(y) <= num(y) * den(x)
    } else {
        conv(x) <= conv(y)
    }
}
fn num_eq(x: &N, y: &N) -> bool {
    if is_exact(x) && is_exact(y) {
        num(x) * den(y) == num(y) * den(x)
    } else {
        conv(x) == conv(y)
    }
}
//@ props C10 C09
//@ role twin
//@ twin_of values_num:upcast_oprands values_num:lhs values_num:rhs
pub fn h_upcast(s: &mut In) -> HR {
    let x = draw_number(s);
    let y = draw_number(s);
    vassume!(wf(&x) && wf(&y));
    let o = upcast_oprands((x, y));
    let (l, r) = (o.lhs(), o.rhs());
    vcheck!("upcast: both sides wf", wf(&l) && wf(&r));
    if is_exact(&x) && is_exact(&y) {
        vcheck!("upcast: exact operands stay exact and keep their value",
            is_exact(&l) && is_exact(&r)
            && num(&l) * den(&x) == num(&x) * den(&l) && num(&r) * den(&y) == num(&y) * den(&r));
    } else {
        vcheck!("upcast: an inexact operand converts both to binary32",
            real_is(&l, conv(&x)) && real_is(&r, conv(&y)));
    }
    Ok(())
}

fn mixed_int_ratio_equal(x: &N, y: &N) -> bool {
    let mixed = matches!((x, y), (Number::Integer(_), Number::Rational(..)) | (Number::Rational(..), Number::Integer(_)));
    mixed && num(x) * den(y) == num(y) * den(x)
}
// KNOWN FINDING C10/eqv-integer-vs-ratio: expected to FAIL on the current tree (and to start passing
// when the defect is repaired).  Everything outside this case is in the contract of exact_eqv.
//@ props C10
//@ role known
//@ finding eqv-integer-vs-ratio
pub fn h_eqv_known_int_vs_ratio(s: &mut In) -> HR {
    let x = draw_exact(s);
    let y = draw_exact(s);
    vassume!(wf(&x) && wf(&y) && mixed_int_ratio_equal(&x, &y));
    vcheck!("eqv? of an integer and a numerically equal ratio is true", x.exact_eqv(&y));
    Ok(())
}

// ====================================================================================
// R = f32: the facts the Verus prelude assumes about the abstract inexact type
// ====================================================================================
//@ props C09 C10 C07
//@ role decisive
pub fn h_f32_conversions(s: &mut In) -> HR {
    let a = s.i32();
    let b = s.i32();
    let wide: i64 = (a as i64) * (b as i64);
    vcheck!("R::from(i32) at f32 is Some(x as f32)", <f32 as num_traits::NumCast>::from(a) == Some(a as f32));
    vcheck!("R::from(i64) at f32 is Some(x as f32)", <f32 as num_traits::NumCast>::from(wide) == Some(wide as f32));
    // literal conversion: a parsed f64 always converts (eval_primitive unwraps this)
    let bits = ((a as u32 as u64) << 32) | (b as u32 as u64);
    let d = f64::from_bits(bits);
    vcheck!("R::from(f64) at f32 is Some", <f32 as num_traits::NumCast>::from(d).is_some());
    Ok(())
}
