# C01 (frames): Interpreter::apply_scheme_procedure -- a call runs in ITS OWN fresh frame, a child of the frame the procedure
# was created in: every parameter, every internal definition and every body expression is defined / evaluated in that frame.
# Real code under contract: src/interpreter/interpreter.rs  Interpreter::apply_scheme_procedure
# Frames themselves (LexicalScope over Rc<RefCell<HashMap>>) are outside Verus: the discipline is stated with a ghost permission
# `call_frame(e, closure)` that only Environment::new_child(closure) grants and that define / eval_expression /
# eval_tail_expression demand of the frame they are given (in this unit).
import importlib.util as _u
import os as _os

_spec = _u.spec_from_file_location("interp_tail_for_apply", _os.path.join(_os.path.dirname(__file__), "interp_tail.py"))
_tail = _u.module_from_spec(_spec)
_spec.loader.exec_module(_tail)

I = "src/interpreter/interpreter.rs"

TYPE_ITEMS = [it for it in _tail.UNIT["items"] if it["kind"] in ("struct", "enum", "type")]

PRELUDE = _tail.PRELUDE + r'''
// ------------------------------------------------------------------------------------------
// Frames: ghost permission
// ------------------------------------------------------------------------------------------
/// e is the fresh frame of THIS call: created by Environment::new_child from the frame `closure` the procedure was created in
pub uninterp spec fn call_frame<R: RealNumberInternalTrait>(e: Environment<R>, closure: Rc<Environment<R>>) -> bool;
/// (ghost) the closure frame of the call under verification -- fixed by apply_scheme_procedure's own `closure` argument
pub uninterp spec fn this_closure<R: RealNumberInternalTrait>() -> Rc<Environment<R>>;
impl<R: RealNumberInternalTrait> Environment<R> {
    /// environment.rs LexicalScope::new_child: a new, empty frame whose parent is `parent`
    #[verifier::external_body]
    pub fn new_child(parent: Rc<Environment<R>>) -> (r: Self) ensures call_frame(r, parent) { unimplemented!() }
    /// environment.rs LexicalScope::define -- in this unit it may only be used on the call's own frame
    #[verifier::external_body]
    pub fn define(&self, name: String, value: Value<R>) requires call_frame(*self, this_closure::<R>()) { unimplemented!() }
}
impl ParameterFormals {
    #[verifier::external_body] pub fn as_name(&self) -> String { unimplemented!() }
    /// parser.rs ParameterFormals::len: (number of fixed formals, has a rest formal) -- declared, no contract needed here
    #[verifier::external_body] pub fn len(&self) -> (usize, bool) { unimplemented!() }
}
/// smallvec::IntoIter<[Value<R>; 4]> (opaque)
#[verifier::external_body] #[verifier::reject_recursive_types(R)]
pub struct ArgIter<R: RealNumberInternalTrait> { _p: core::marker::PhantomData<R> }
/// `args.into_iter()` (rule X3s)
#[verifier::external_body]
pub fn argvec_into_iter<R: RealNumberInternalTrait>(args: ArgVec<R>) -> ArgIter<R> { unimplemented!() }
/// `arg_iter.collect::<Pair<R>>()` (rule X3s): the remaining arguments as a list
#[verifier::external_body]
pub fn collect_rest<R: RealNumberInternalTrait>(it: ArgIter<R>) -> Pair<R> { unimplemented!() }
/// rule X3c: `formals.iter_to_last(|formal| { let arg = arg_iter.next().unwrap(); local_env.define(formal.as_name(), arg); })`.
/// An FnMut closure that captures the argument iterator mutably is outside Verus: the WHOLE call is replaced by this wrapper
/// (the closure's text is checked to read exactly like that on every run).  ASSUMED: every fixed formal is bound, in order, to
/// the next argument IN THE FRAME GIVEN; the rest formal, if any, is returned.  It demands the call's own frame like define does.
#[verifier::external_body]
pub fn bind_fixed_parameters<'f, R: RealNumberInternalTrait>(formals: &'f ParameterFormals, arg_iter: &mut ArgIter<R>, frame: &Rc<Environment<R>>)
    -> (r: Option<&'f ParameterFormals>)
    requires call_frame(**frame, this_closure::<R>()),
{ unimplemented!() }
impl<'a, R: RealNumberInternalTrait> Interpreter<'a, R> {
    /// interpreter.rs eval_expression (its own contracts: units interp_eval*): here only WHERE it evaluates
    #[verifier::external_body]
    pub fn eval_expression(expression: &Expression, env: &Rc<Environment<R>>) -> (r: Result<Value<R>>)
        requires call_frame(**env, this_closure::<R>()),
    { unimplemented!() }
    /// interpreter.rs eval_tail_expression (its own contract: unit interp_tail): here only WHERE it evaluates, and that the
    /// result is the tail evaluation of that expression in that frame
    #[verifier::external_body]
    pub fn eval_tail_expression<'b>(expression: &'b Expression, env: Rc<Environment<R>>) -> (r: Result<TailExpressionResult<'b, R>>)
        requires call_frame(*env, this_closure::<R>()),
        ensures tail_eval_of(r, *expression, env),
    { unimplemented!() }
}
/// r is what the tail evaluation of `e` in frame `env` returned (uninterpreted relation)
pub uninterp spec fn tail_eval_of<R: RealNumberInternalTrait>(r: Result<TailExpressionResult<R>>, e: Expression, env: Rc<Environment<R>>) -> bool;
pub assume_specification<T>[ <[T]>::split_last ](s: &[T]) -> (r: Option<(&T, &[T])>)
    ensures s@.len() == 0 ==> r is None,
        s@.len() > 0 ==> (r matches Some((last, other)) && *last == s@[s@.len() - 1] && other@ == s@.take(s@.len() - 1));
'''

UNIT = {
    "props": ["C01"],
    "header": _tail.HEADER,
    "uses": "use std::rc::Rc;\nuse std::marker::PhantomData;",
    "rlimit": 30,
    "trusted": dict(_tail.UNIT["trusted"], **{
        "<[T": "std <[T]>::split_last: the last element and the elements before it",
        "new_child": "LexicalScope::new_child(parent): a new empty frame whose parent is `parent` (grants the ghost permission call_frame)",
        "define": "LexicalScope::define: demands the permission (frames are outside Verus: no functional contract)",
        "as_name": "ParameterFormals::as_name: opaque", "len": "ParameterFormals::len: declared without a contract",
        "ArgIter": "opaque: smallvec::IntoIter", "argvec_into_iter": "X3s: args.into_iter()", "collect_rest": "X3s: arg_iter.collect::<Pair<R>>()",
        "bind_fixed_parameters": "ASSUMED (rule X3c: the FnMut closure over the argument iterator is outside Verus; its text is checked): binds the fixed formals in order in the frame given",
        "eval_expression": "declared: demands the call's own frame (its meaning: units interp_eval*)",
        "eval_tail_expression": "declared: demands the call's own frame; the result is the uninterpreted tail_eval_of (its meaning: unit interp_tail)",
    }),
    "prelude": PRELUDE,
    "items": TYPE_ITEMS + [
        {"kind": "impl", "file": I, "impl": r"^impl<'a, R: RealNumberInternalTrait> Interpreter<'a, R>$",
         "methods": {
             "apply_scheme_procedure": {"props": ["C01"],
                 "attrs": "#[verifier::loop_isolation(false)]",
                 "sig_rewrites": [("S1", r"-> Result<TailExpressionResult<'b, R>>$", "-> (r: Result<TailExpressionResult<'b, R>>)")],
                 # rule B1: the name of the call's frame is read from the code
                 "bind": {"ENV": (r"let (\w+) = Rc::new\(Environment::new_child\(", "local_env"),
                          "IT": (r"let mut (\w+) = args\.into_iter\(\);", "arg_iter")},
                 "rewrites": [
                     ("X3s", r"args\.into_iter\(\)", "argvec_into_iter(args)", 1),
                     ("X3c", r"formals\.iter_to_last\(\|(\w+)\| \{\s*let (\w+) = ${IT}\.next\(\)\.unwrap\(\);\s*${ENV}\.define\(\1\.as_name\(\), \2\);\s*\}\)",
                      "bind_fixed_parameters(formals, &mut ${IT}, &${ENV})", 1, "S"),
                     ("X3s", r"${IT}\.collect::<Pair<R>>\(\)", "collect_rest(${IT})", 1),
                     # rule L1m: a `for PAT in xs.iter().map(|d| &d.data)` loop is written as a loop over xs.iter() whose first statement is the
                     # projection (the same bindings in the same order; Verus cannot establish its ghost invariant for the Map adapter here)
                     ("L1m", r"for (\w+\([^)]*\)) in (\w+)\.iter\(\)\.map\(\|(\w+)\| &\3\.data\) \{", r"for \3 in \2.iter() { let \1 = &\3.data;", 0),
                 ],
                 "contract": """        requires
            closure == this_closure::<R>(),
            // a procedure body has at least one expression (the parser refuses an empty body)
            expressions@.len() > 0,
        ensures
            // on success the result is the TAIL evaluation of the body's last expression in a frame that is the call's own
            // fresh child of the closure's frame
            r is Ok ==> exists|frame: Rc<Environment<R>>| call_frame(*frame, closure)
                && #[trigger] tail_eval_of(r, expressions@[expressions@.len() - 1], frame),"""},
         }},
    ],
    "spec": "",
}
