# C03 ("a literal vector is a constant"): Interpreter::read_literal -- a vector datum becomes an IMMUTABLE vector object, at
# every nesting depth.  Same extraction as unit interp_literal (C06) with the clause about mutability switched ON and the
# clauses about the leaves (symbols, literal tokens) switched OFF (one obligation belongs to one property).
import copy
import importlib.util as _u
import os as _os

_spec = _u.spec_from_file_location("interp_literal_for_const", _os.path.join(_os.path.dirname(__file__), "interp_literal.py"))
_full = _u.module_from_spec(_spec)
_spec.loader.exec_module(_full)

UNIT = copy.deepcopy(_full.UNIT)
UNIT["props"] = ["C03"]
UNIT["prelude"] = _full.PRELUDE.replace("/*STRUCT_CLAUSE*/", _full._STRUCT_OFF).replace("/*CONST_CLAUSE*/", _full._CONST_ON)
for _it in UNIT["items"]:
    if _it.get("methods"):
        _it["methods"] = {k: dict(v, props=["C03"]) for k, v in _it["methods"].items() if k == "read_literal"}
# eval_primitive is not verified in this variant: its (leaf) contract is switched off here -- declared without a body
UNIT["prelude"] += r'''
impl<'a, R: RealNumberInternalTrait> Interpreter<'a, R> {
    /// interpreter.rs eval_primitive: contract PROVED in unit interp_literal (C06); here only: a literal token that is not a decimal has a value
    #[verifier::external_body]
    pub fn eval_primitive(datum: &Primitive) -> (r: Result<Value<R>>)
        requires wf_prim(*datum),
        ensures !(*datum is Real) ==> r is Ok,
    { unimplemented!() }
}
'''
UNIT["trusted"] = dict(UNIT["trusted"], eval_primitive="CONTRACT PROVED IN UNIT interp_literal (C06); restated without the value clause")
