# C02 / C08 / C07: the evaluator's control skeleton for tail calls.
# Real code under contract (src/interpreter/interpreter.rs unless noted):
#   TailCall::as_ref, Interpreter::eval_tail_expression, Interpreter::eval_owned_tail_expression,
#   Interpreter::apply_procedure, Procedure::get_parameters (values.rs), Value::as_boolean (values.rs)
# Opaque (X2) / assumed-contract callees (X3): eval_expression, eval_procedure_call, apply_scheme_procedure,
#   BuiltinProcedureBody::apply, ParameterFormals::len, ArgVec::len, Expression::extract_data

I = "src/interpreter/interpreter.rs"
V = "src/values.rs"
P = "src/parser/parser.rs"
E = "src/error.rs"
D = "src/parser/datum.rs"

HEADER = "#![feature(allocator_api)]\n#![allow(unused_imports, dead_code, unused_variables)]"

PRELUDE = r'''
// ------------------------------------------------------------------------------------------
// Prelude: opaque types (X2) -- the functions of this unit only pass them around
// ------------------------------------------------------------------------------------------
// X7: no arithmetic on R in this unit; the one operation used is the conversion of a parsed literal
pub trait ToPrimitive: Sized {}
impl ToPrimitive for f64 {}
pub trait RealNumberInternalTrait: Sized {
    /// num_traits::NumCast::from -- ASSUMED total for the literal's type (checked at R = f32 by Kani: f32_conversions)
    fn from<T: ToPrimitive>(n: T) -> (r: Option<Self>) ensures r is Some;
}
#[verifier::external_trait_specification]
pub trait ExFromStr: Sized {
    type ExternalTraitSpecificationFor: core::str::FromStr;
    type Err;
    fn from_str(s: &str) -> core::result::Result<Self, Self::Err>;
}
#[verifier::external_type_specification]
#[verifier::external_body]
pub struct ExParseFloatError(core::num::ParseFloatError);
/// str::parse: may fail -- nothing is assumed about its result
pub assume_specification<F: core::str::FromStr>[ str::parse::<F> ](s: &str) -> (r: core::result::Result<F, F::Err>);

#[verifier::external_body] pub struct Datum { _p: () }           // parser::Datum = Located<DatumBody>
#[verifier::external_body] pub struct ParameterFormals { _p: () } // parser::ParameterFormals
#[verifier::external_body] #[verifier::accept_recursive_types(T)]
pub struct ValueReference<T> { _p: core::marker::PhantomData<T> }
#[verifier::external_body] pub struct Transformer { _p: () }
#[verifier::external_body] #[verifier::reject_recursive_types(R)]
pub struct BuiltinProcedureBody<R: RealNumberInternalTrait> { _p: core::marker::PhantomData<R> }
#[verifier::external_body] #[verifier::reject_recursive_types(R)]
pub struct Environment<R: RealNumberInternalTrait> { _p: core::marker::PhantomData<R> } // LexicalScope<Value<R>>
#[verifier::external_body] #[verifier::reject_recursive_types(R)]
pub struct ArgVec<R: RealNumberInternalTrait> { _p: core::marker::PhantomData<R> }      // SmallVec<[Value<R>; 4]>
#[verifier::external_body] pub struct SchemeError { _p: () }
#[verifier::external_body] #[verifier::reject_recursive_types(R)]
pub struct Interpreter<'a, R: RealNumberInternalTrait> { _p: core::marker::PhantomData<&'a R> }
pub type Result<T> = core::result::Result<T, SchemeError>;
pub type Pair<R> = GenericPair<Value<R>>;

pub assume_specification<T: ?Sized, A: core::alloc::Allocator>[ <Box<T, A> as core::convert::AsRef<T>>::as_ref ](b: &Box<T, A>) -> (r: &T)
    ensures r == &**b;
'''

SPEC = r'''

// ------------------------------------------------------------------------------------------
// Callees that are not in this unit (X3): declared with the contract the caller relies on.
// Their bodies are NOT verified here -- each is listed under assumed_contracts in the evidence.
// ------------------------------------------------------------------------------------------
impl<'a, R: RealNumberInternalTrait> Interpreter<'a, R> {
    /// interpreter.rs: eval_expression (iterator adapters, RefCell frames: outside Verus)
    #[verifier::external_body]
    pub fn eval_expression(expression: &Expression, env: &Rc<Environment<R>>) -> (r: Result<Value<R>>)
        requires may_eval(*expression),
        ensures r == eval_result(*expression, **env),
    { unimplemented!() }

    /// interpreter.rs: apply_scheme_procedure -- consumes one argument per fixed formal with unwrap():
    /// the argument count MUST fit the formals.  A returned tail call is pending.
    #[verifier::external_body]
    pub fn apply_scheme_procedure<'b>(
        formals: &ParameterFormals,
        internal_definitions: &[Definition],
        expressions: &'b [Expression],
        closure: Rc<Environment<R>>,
        args: ArgVec<R>,
    ) -> (r: Result<TailExpressionResult<'b, R>>)
        requires arity_ok(*formals, args.spec_len()),
        ensures r matches Ok(TailExpressionResult::TailCall(tc)) ==> {
            &&& pending(tc.op(), tc.operands(), tc.frame())
            // ... and the trampoline (nobody else) may now evaluate its operator and operands
            &&& may_eval(tc.op())
            &&& forall|i: int| 0 <= i < tc.operands().len() ==> may_eval(#[trigger] tc.operands()[i])
        },
    { unimplemented!() }
}
impl<R: RealNumberInternalTrait> Number<R> {
    /// values.rs Number::from_ratio -- contract proved in unit values_num (restated: the part this unit needs)
    #[verifier::external_body]
    pub fn from_ratio(num: i64, den: i64) -> (r: Self)
        requires den != 0, num > i64::MIN, den > i64::MIN,
        ensures r matches Number::Rational(_, b) ==> b > 0,
    { unimplemented!() }
}
/// error!(SyntaxError::ExpectSomething("real number".to_string(), number_literal.clone()))  (X6)
#[verifier::external_body]
pub fn literal_error<T>() -> (r: Result<T>) ensures r is Err { unimplemented!() }

/// the evaluated operands an ArgVec holds
pub uninterp spec fn argvec_items<R: RealNumberInternalTrait>(v: ArgVec<R>) -> Seq<Value<R>>;
impl<R: RealNumberInternalTrait> ArgVec<R> {
    pub open spec fn spec_len(&self) -> nat { argvec_items(*self).len() }
    #[verifier::external_body]
    pub fn len(&self) -> (r: usize) ensures r == self.spec_len() { unimplemented!() }
}
impl ParameterFormals {
    /// parser.rs: ParameterFormals::len (closure-based visitor: outside Verus)
    #[verifier::external_body]
    pub fn len(&self) -> (r: (usize, bool)) ensures r == formals_shape(*self) { unimplemented!() }
}
impl<R: RealNumberInternalTrait> BuiltinProcedureBody<R> {
    /// values.rs: BuiltinProcedureBody::apply -- builtins take their arguments with iter.next().unwrap()
    #[verifier::external_body]
    pub fn apply(&self, args: ArgVec<R>, env: &Rc<Environment<R>>) -> (r: Result<Value<R>>)
        requires builtin_accepts(*self, args.spec_len()),
    { unimplemented!() }
}
/// values.rs `impl PartialEq for Procedure` (compares the code of user procedures, NOT their closures): opaque here
impl<R: RealNumberInternalTrait> PartialEq for Procedure<R> {
    #[verifier::external_body]
    fn eq(&self, other: &Procedure<R>) -> (r: bool) { unimplemented!() }
}
impl<T> Located<T> {
    /// error.rs: Located::extract_data
    #[verifier::external_body]
    pub fn extract_data(self) -> (r: T) ensures r == self.data { unimplemented!() }
}
pub uninterp spec fn is_type_mismatch(e: SchemeError) -> bool;
/// Err(ErrorData::Logic(LogicError::TypeMisMatch(value.to_string(), type_name)).no_locate())   (X6)
#[verifier::external_body]
pub fn type_mismatch_error<T>() -> (r: Result<T>) ensures r is Err, is_type_mismatch(r->Err_0) { unimplemented!() }

pub open spec fn yields_ok<R: RealNumberInternalTrait, F: Fn(&Expression) -> Result<Value<R>>>(f: F, x: Expression) -> bool {
    exists|v: Value<R>| #[trigger] f.ensures((&x,), Ok::<Value<R>, SchemeError>(v))
}
/// std `slice.iter().map(f).collect::<Result<ArgVec<_>>>()`, called through a wrapper (rule X3s).  ASSUMED (std): f is
/// applied to the elements in order; the first Err ends the collection and is returned; otherwise all results are collected.
#[verifier::external_body]
pub fn std_map_collect<R: RealNumberInternalTrait, F: Fn(&Expression) -> Result<Value<R>>>(items: &[Expression], f: F)
    -> (r: Result<ArgVec<R>>)
    requires forall|i: int| 0 <= i < items@.len() ==> #[trigger] f.requires((&items@[i],)),
    ensures match r {
        Ok(v) => argvec_items(v).len() == items@.len()
            && forall|i: int| #![trigger items@[i]] #![trigger argvec_items(v)[i]] 0 <= i < items@.len()
                    ==> f.ensures((&items@[i],), Ok::<Value<R>, SchemeError>(argvec_items(v)[i])),
        Err(e) => exists|j: int| 0 <= j < items@.len() && #[trigger] f.ensures((&items@[j],), Err::<Value<R>, SchemeError>(e))
            && forall|i: int| #![trigger items@[i]] 0 <= i < j ==> yields_ok(f, items@[i]),
    },
{ unimplemented!() }

/// C08 "calls a non-procedure": a call whose operator does not evaluate to a procedure is an error of the TypeMisMatch
/// kind, an error of the operator or of an operand is passed on (never replaced by a value), and a successful result is
/// the operator's procedure with exactly the operands' values, in order.  (Deliberately silent about WHICH error wins
/// when several sub-expressions fail: R7RS leaves the order of evaluation open.)
pub open spec fn call_post<R: RealNumberInternalTrait>(op: Expression, operands: Seq<Expression>, env: Rc<Environment<R>>,
                                                      r: Result<(Procedure<R>, ArgVec<R>)>) -> bool {
    let first = eval_result(op, *env);
    match r {
        Ok((p, args)) => first == Ok::<Value<R>, SchemeError>(Value::Procedure(p)) && argvec_items(args).len() == operands.len()
            && forall|i: int| 0 <= i < operands.len() ==> #[trigger] eval_result(operands[i], *env) == Ok::<Value<R>, SchemeError>(argvec_items(args)[i]),
        Err(e) => {
            ||| first == Err::<Value<R>, SchemeError>(e)
            ||| (exists|j: int| 0 <= j < operands.len() && #[trigger] eval_result(operands[j], *env) == Err::<Value<R>, SchemeError>(e))
            ||| (first matches Ok(v) && !(v is Procedure) && is_type_mismatch(e))
        },
    }
}

/// `return error!(LogicError::ArgumentMissMatch(formals.clone(), args.iter().join(" ")))` (X6: the message
/// arguments are dropped, the error KIND is kept)
#[verifier::external_body]
pub fn arity_mismatch_error<R: RealNumberInternalTrait, T>(formals: &ParameterFormals, args: &ArgVec<R>) -> (r: Result<T>)
    ensures r is Err, is_arity_error(r->Err_0),
{ unimplemented!() }

/// TRUSTED (data, base.rs library_map): every builtin body is registered with the parameter list it was written for
#[verifier::external_body]
pub proof fn axiom_builtin_table<R: RealNumberInternalTrait>()
    ensures forall|b: BuiltinProcedure<R>, n: nat| #![trigger builtin_accepts(b.body, n)]
        arity_ok(b.parameters, n) ==> builtin_accepts(b.body, n),
{}
// ------------------------------------------------------------------------------------------
// Ghost vocabulary
// ------------------------------------------------------------------------------------------
/// permission to evaluate an expression eagerly (held only for the sub-expressions the
/// property allows a tail evaluation to evaluate)
pub uninterp spec fn may_eval(e: Expression) -> bool;
/// oracle for the opaque evaluator (limit, stated in DESIGN: one evaluation and two are equal)
pub uninterp spec fn eval_result<R: RealNumberInternalTrait>(e: Expression, env: Environment<R>) -> Result<Value<R>>;
/// a tail call handed back by apply_scheme_procedure and not yet performed
pub uninterp spec fn pending<R: RealNumberInternalTrait>(op: Expression, operands: Seq<Expression>, env: Rc<Environment<R>>) -> bool;
/// permission to enter the trampoline (held by outside callers only: the body cannot call itself)
pub uninterp spec fn entry<R: RealNumberInternalTrait>(p: Procedure<R>, args: ArgVec<R>) -> bool;
/// (number of fixed parameters, has a rest parameter) of a parameter list
pub uninterp spec fn formals_shape(f: ParameterFormals) -> (usize, bool);
pub uninterp spec fn is_arity_error(e: SchemeError) -> bool;
/// the builtin table pairs every body with the parameter list it was written for
pub uninterp spec fn builtin_accepts<R: RealNumberInternalTrait>(b: BuiltinProcedureBody<R>, n: nat) -> bool;

pub open spec fn arity_ok(f: ParameterFormals, n: nat) -> bool {
    let (fixed, variadic) = formals_shape(f);
    n >= fixed && (n == fixed || variadic)
}
pub open spec fn truthy<R: RealNumberInternalTrait>(v: Value<R>) -> bool {
    !(v matches Value::Boolean(b) && !b)
}
pub open spec fn params_of<R: RealNumberInternalTrait>(p: Procedure<R>) -> ParameterFormals {
    match p {
        Procedure::User(SchemeProcedure(formals, _, _), _) => formals,
        Procedure::Builtin(b) => b.parameters,
    }
}

/// which sub-expressions a tail evaluation of `expr` may evaluate eagerly
pub open spec fn tail_evaluable(expr: Expression, e: Expression) -> bool
    decreases expr
{
    match expr.data {
        ExpressionBody::ProcedureCall(_, _) => false,
        ExpressionBody::Conditional(c) => {
            let (test, consequent, alternative) = *c;
            e == test || tail_evaluable(consequent, e)
                || (alternative matches Some(alt) && tail_evaluable(alt, e))
        }
        _ => e == expr,
    }
}

/// what a tail evaluation of `expr` in `env` must return
pub open spec fn tail_post<R: RealNumberInternalTrait>(
    expr: Expression, env: Rc<Environment<R>>, r: Result<TailExpressionResult<R>>) -> bool
    decreases expr
{
    match expr.data {
        // (a) a call in tail position is RETURNED, not performed: same operator, operands, frame
        ExpressionBody::ProcedureCall(p, args) =>
            r matches Ok(TailExpressionResult::TailCall(tc))
                && tc.op() == *p && tc.operands() == args@ && tc.frame() == env,
        // (b) only the test is evaluated; the selected arm is again in tail position
        ExpressionBody::Conditional(c) => {
            let (test, consequent, alternative) = *c;
            match eval_result(test, *env) {
                Err(e) => r == Err::<TailExpressionResult<R>, SchemeError>(e),
                Ok(v) => if truthy(v) { tail_post(consequent, env, r) } else {
                    match alternative {
                        Some(alt) => tail_post(alt, env, r),
                        None => r == Ok::<TailExpressionResult<R>, SchemeError>(TailExpressionResult::Value(Value::Void)),
                    }
                },
            }
        }
        // (c) anything else is evaluated
        _ => match eval_result(expr, *env) {
            Err(e) => r == Err::<TailExpressionResult<R>, SchemeError>(e),
            Ok(v) => r == Ok::<TailExpressionResult<R>, SchemeError>(TailExpressionResult::Value(v)),
        },
    }
}

impl<'a, R: RealNumberInternalTrait> TailCall<'a, R> {
    pub open spec fn op(self) -> Expression {
        match self { TailCall::Ref(p, _, _) => *p, TailCall::Owned(p, _, _, _) => p }
    }
    pub open spec fn operands(self) -> Seq<Expression> {
        match self { TailCall::Ref(_, a, _) => a@, TailCall::Owned(_, a, _, _) => a@ }
    }
    pub open spec fn frame(self) -> Rc<Environment<R>> {
        match self { TailCall::Ref(_, _, e) => e, TailCall::Owned(_, _, e, _) => e }
    }
}
'''

UNIT = {
    "props": ["C02", "C08", "C07"],
    "header": HEADER,
    "uses": "use std::rc::Rc;\nuse std::marker::PhantomData;",
    "rlimit": 30,
    "trusted": {
        "Datum": "opaque type (X2)", "ParameterFormals": "opaque type (X2); its shape is the uninterpreted formals_shape",
        "parse": "std str::parse: nothing assumed (may fail)", "ExParseFloatError": "std error type (opaque)",
        "from_ratio": "CONTRACT PROVED IN UNIT values_num (Number::from_ratio): exact results have a positive denominator",
        "literal_error": "X6: error!(SyntaxError::ExpectSomething(..)) builds an Err",
        "ValueReference": "opaque type (X2), declared positive in T",
        "Transformer": "opaque type (X2)", "BuiltinProcedureBody": "opaque type (X2)", "Environment": "opaque type (X2)",
        "ArgVec": "opaque type (X2): SmallVec<[Value<R>;4]>, only its length is modelled",
        "SchemeError": "opaque type (X2); the ArgumentMissMatch kind is the uninterpreted is_arity_error",
        "Interpreter": "opaque type (X2): only its associated functions are used",
        "as_ref": "std Box::as_ref returns the boxed value",
        "eval_expression": "ASSUMED CONTRACT: deterministic oracle eval_result; needs the may_eval permission",
        "std_map_collect": "ASSUMED (std): slice.iter().map(f).collect::<Result<_>>() applies f in order and stops at the first Err",
        "type_mismatch_error": "X6: Err(ErrorData::Logic(LogicError::TypeMisMatch(..)).no_locate()) builds an error of that kind",
        "apply_scheme_procedure": "ASSUMED CONTRACT (from its body: one unwrap() per fixed formal): requires arity_ok; a returned tail call is pending",
        "len": "ASSUMED CONTRACT: SmallVec::len / ParameterFormals::len return the modelled length / shape",
        "apply": "ASSUMED CONTRACT: a builtin body may be applied to a count its declared parameters accept",
        "extract_data": "Located::extract_data returns the data field (one-line getter in error.rs)",
        "eq": "Procedure's hand-written PartialEq: no contract (it is NOT identity: closures are ignored)",
        "arity_mismatch_error": "X6: error!(LogicError::ArgumentMissMatch(..)) builds an error of the arity kind",
        "axiom_builtin_table": "TRUSTED DATA: library_map pairs each builtin body with its own parameter list",
    },
    "prelude": PRELUDE,
    "items": [
        {"kind": "struct", "file": E, "name": "Located"},
        {"kind": "enum", "file": D, "name": "Primitive"},
        {"kind": "enum", "file": "src/parser/pair.rs", "name": "GenericPair"},
        {"kind": "type", "file": P, "name": "Expression"},
        {"kind": "enum", "file": P, "name": "ExpressionBody"},
        {"kind": "struct", "file": P, "name": "DefinitionBody"},
        {"kind": "type", "file": P, "name": "Definition"},
        {"kind": "struct", "file": P, "name": "SchemeProcedure"},
        {"kind": "struct", "file": V, "name": "BuiltinProcedure", "attrs": "#[verifier::reject_recursive_types(R)]"},
        {"kind": "enum", "file": V, "name": "Procedure", "attrs": "#[verifier::reject_recursive_types(R)]"},
        {"kind": "enum", "file": V, "name": "Number", "attrs": "#[verifier::reject_recursive_types(R)]"},
        {"kind": "enum", "file": V, "name": "Value", "attrs": "#[verifier::reject_recursive_types(R)]"},
        {"kind": "enum", "file": I, "name": "TailExpressionResult", "attrs": "#[verifier::reject_recursive_types(R)]"},
        {"kind": "enum", "file": I, "name": "TailCall", "attrs": "#[verifier::reject_recursive_types(R)]"},

        {"kind": "impl", "file": I, "impl": r"^impl<'a, R: RealNumberInternalTrait> TailCall<'a, R>$",
         "methods": {"as_ref": {"props": ["C02"],
             "sig_rewrites": [("S1", r"-> \(&'a Expression, &'a \[Expression\], &Rc<Environment<R>>\)$",
                               "-> (r: (&'a Expression, &'a [Expression], &Rc<Environment<R>>))")],
             "contract": "        ensures *r.0 == self.op(), r.1@ == self.operands(), *r.2 == self.frame(),"}}},
        {"kind": "impl", "file": V, "impl": r"^impl<R: RealNumberInternalTrait> Procedure<R>$",
         "methods": {"get_parameters": {"props": ["C08"],
             "sig_rewrites": [("S1", r"-> &ParameterFormals$", "-> (r: &ParameterFormals)")],
             "contract": "        ensures *r == params_of(*self),"}}},
        {"kind": "impl", "file": V, "impl": r"^impl<R: RealNumberInternalTrait> Value<R>$",
         "require_source": [r"macro_rules! match_expect_type \{\s*\(\$value:expr, \$type:pat => \$inner: expr, \$type_name:expr\) => \{\s*match \$value \{\s*\$type => Ok\(\$inner\),\s*_ => Err\("],
         "methods": {"as_boolean": {"props": ["C02"],
             "sig_rewrites": [("S1", r"-> bool$", "-> (r: bool)")],
             "contract": "        ensures r == truthy(*self),"},
             "expect_procedure": {"props": ["C08"],
                 "sig_rewrites": [("S1", r"-> Result<Procedure<R>>$", "-> (r: Result<Procedure<R>>)")],
                 "rewrites": [("M1e", r"match_expect_type!\(self, (.+?) => (.+?), (Type::\w+)\)",
                               r"match self { \1 => Ok(\2), _ => type_mismatch_error() }")],
                 "contract": """        ensures
            self matches Value::Procedure(p) ==> r == Ok::<Procedure<R>, SchemeError>(p),
            !(self is Procedure) ==> r is Err && is_type_mismatch(r->Err_0),"""}}},
        {"kind": "impl", "file": I, "impl": r"^impl<'a, R: RealNumberInternalTrait> Interpreter<'a, R>$",
         "methods": {
             "eval_tail_expression": {"props": ["C02"],
                 "sig_rewrites": [("S1", r"-> Result<TailExpressionResult<R>>$", "-> (r: Result<TailExpressionResult<R>>)")],
                 "contract": """        requires forall|e: Expression| tail_evaluable(*expression, e) ==> may_eval(e),
        ensures tail_post(*expression, env, r),
        decreases *expression,"""},
             "eval_procedure_call": {"props": ["C08", "C02", "C07"],
                 "sig_rewrites": [("S1", r"-> Result<\(Procedure<R>, ArgVec<R>\)>$", "-> (r: Result<(Procedure<R>, ArgVec<R>)>)")],
                 "rewrites": [("X3s", r"arguments\s*\.iter\(\)\s*\.map\(\|(\w+)\| Self::eval_expression\(\1, env\)\)\s*\.collect::<Result<ArgVec<_>>>\(\)",
                               "std_map_collect(arguments, |arg: &Expression| -> (o: Result<Value<R>>) requires may_eval(*arg) "
                               "ensures o == eval_result(*arg, **env) { Self::eval_expression(arg, env) })", 1, "S")],
                 "contract": """        requires
            pending(*procedure_expr, arguments@, *env),
            may_eval(*procedure_expr), forall|i: int| 0 <= i < arguments@.len() ==> may_eval(#[trigger] arguments@[i]),
        ensures call_post(*procedure_expr, arguments@, *env, r),"""},
             "eval_primitive": {"props": ["C07", "C09"],
                 "sig_rewrites": [("S1", r"-> Result<Value<R>>$", "-> (r: Result<Value<R>>)")],
                 "rewrites": [("X6", r"error!\(SyntaxError::ExpectSomething\(\s*\"real number\"\.to_string\(\),\s*number_literal\.clone\(\),?\s*\)\)",
                               "literal_error()", 0, "S")],
                 "contract": """        requires
            // the lexer never produces a ratio literal with denominator 0 (proved: lexer_pos unit, Lexer::number)
            *datum matches Primitive::Rational(_, b) ==> b != 0,
        ensures
            // C09 literals: an exact ratio literal stays exact only with a positive denominator; an integer literal is itself
            r matches Ok(Value::Number(Number::Rational(_, b))) ==> b > 0,
            *datum matches Primitive::Integer(a) ==> r matches Ok(Value::Number(Number::Integer(v))) && v == a,"""},
             "eval_owned_tail_expression": {"props": ["C02", "C07"],
                 "sig_rewrites": [("S1", r"-> Result<TailExpressionResult<'b, R>>$", "-> (r: Result<TailExpressionResult<'b, R>>)")],
                 "contract": """        requires forall|e: Expression| tail_evaluable(expression, e) ==> may_eval(e),
        ensures tail_post(expression, env, r),
        decreases expression,"""},
             "apply_procedure": {"props": ["C02", "C08", "C07"],
                 # rule B1: the locals the invariant mentions are read from the code
                 "bind": {"CUR": (r"let mut (\w+) = None;", "current_procedure"),
                          "TP": (r"let \((\w+), \w+\) = Self::eval_procedure_call\(", "tail_procedure"),
                          "TA": (r"let \(\w+, (\w+)\) = Self::eval_procedure_call\(", "tail_args")},
                 "attrs": "#[verifier::exec_allows_no_decreases_clause]\n#[verifier::loop_isolation(false)]",
                 "sig_rewrites": [("S1", r"-> Result<Value<R>>$", "-> (r: Result<Value<R>>)")],
                 "rewrites": [
                     ("X6", r"return error!\(LogicError::ArgumentMissMatch\(\s*formals\.clone\(\),\s*args\.iter\(\)\.join\(\" \"\)\s*\)\);",
                      "return arity_mismatch_error(formals, &args);", 1, "S"),
                     ("X5", r"break body\.apply\(args, env\);", "return body.apply(args, env);"),
                     ("X5", r"break Ok\(return_value\);", "return Ok(return_value);"),
                 ],
                 "body_start": "        let ghost args0 = args;\n        let ghost mut last_call: Option<(Procedure<R>, ArgVec<R>)> = None;\n"
                               "        proof { axiom_builtin_table::<R>(); }",
                 # (e) the next turn of the trampoline runs EXACTLY the procedure and the operands the pending tail call evaluated to
                 "inserts": [(r"(?s)let \(${TP}, ${TA}\) = Self::eval_procedure_call\(.*?\)\?;",
                              "                            proof { last_call = Some((${TP}, ${TA})); }")],
                 "loops": {1: {"expect_kw": "loop", "invariant": """            invariant
                ${CUR} is None ==> args == args0 && last_call is None,
                ${CUR} is Some ==> arity_ok(params_of(*initial_procedure), args0.spec_len()),
                // (e) rebinding: what is applied next is what the last tail call evaluated to -- never a stale procedure or stale operands
                last_call matches Some(lc) ==> ${CUR} == Some(lc.0) && args == lc.1,"""}},
                 "contract": """        requires entry(*initial_procedure, args),
        ensures
            // (g) a procedure whose parameter list does not accept the argument count is an ArgumentMissMatch error
            !arity_ok(params_of(*initial_procedure), args.spec_len()) ==> r is Err && is_arity_error(r->Err_0),"""},
         }},
    ],
    "spec": SPEC,
}


# ---- as-found variant (VERIF_ASFOUND=1): the arity test of the pinned commit sits before the loop ----
import copy as _copy
UNIT_ASFOUND = _copy.deepcopy(UNIT)
for _it in UNIT_ASFOUND["items"]:
    _ms = _it.get("methods") or {}
    if "apply_procedure" in _ms:
        _ms["apply_procedure"]["loops"] = {1: {"expect_kw": "loop", "invariant": """            invariant
                current_procedure is None ==> args == args0 && arity_ok(params_of(*initial_procedure), args0.spec_len()),"""}}
