# C14: Interpreter::eval_import_set against the same relation as unit interp_import, with the clauses about WHICH bindings an
# import set yields switched off and the clauses about the in-progress set (the cycle detector) switched on:
# a change of the algebra alarms C12 and not C14, a change of the cycle detector alarms C14 and not C12.
import copy
import importlib.util as _u
import os as _os

_spec = _u.spec_from_file_location("interp_import_for_cycle", _os.path.join(_os.path.dirname(__file__), "interp_import.py"))
_full = _u.module_from_spec(_spec)
_spec.loader.exec_module(_full)

UNIT = copy.deepcopy(_full.UNIT)
UNIT["props"] = ["C14"]
UNIT["prelude"] = _full.PRELUDE_CYCLE
for _it in UNIT["items"]:
    for _m in (_it.get("methods") or {}).values():
        _m["props"] = ["C14"]

import re as _re
# the closures' contracts and the adapters' contracts are about the algebra: switched off here
for _it in UNIT["items"]:
    for _m in (_it.get("methods") or {}).values():
        _new = []
        for _rw in _m.get("rewrites", []):
            _rw = list(_rw)
            if _rw[0] == "X3s" and ("std_filter_collect(" in _rw[2] or "std_map_collect(" in _rw[2]):
                _rw[2] = _re.sub(r"ensures [^{]*\{", "ensures true {", _rw[2])
                _rw[2] = _re.sub(r", Ghost\(.*\)\)\)$", "))", _rw[2])
                _rw[2] = _rw[2].replace("std_filter_collect(", "std_filter_collect_u(").replace("std_map_collect(", "std_map_collect_u(")
            _new.append(tuple(_rw))
        if _new:
            _m["rewrites"] = _new
