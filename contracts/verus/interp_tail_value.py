# C01 ("only #f counts as false"): Value::as_boolean.  Same extraction as in unit interp_tail (where the function serves C02),
# restricted to this one function.  The `if` of eval_expression itself is unit interp_eval_value; an `if` in TAIL position
# (eval_tail_expression / eval_owned_tail_expression) is decided by C02's unit interp_tail (`tail_post`: the selected arm, the same
# result) and is NOT repeated under C01: its contract also says that a tail call is returned rather than performed, and a change that
# only breaks that must alarm C02, not C01 (one obligation belongs to one property; tried and dropped, see DESIGN.md C01).
import copy
import importlib.util as _u
import os as _os

_spec = _u.spec_from_file_location("interp_tail_for_value", _os.path.join(_os.path.dirname(__file__), "interp_tail.py"))
_full = _u.module_from_spec(_spec)
_spec.loader.exec_module(_full)

_KEEP = {"as_boolean"}
UNIT = copy.deepcopy(_full.UNIT)
UNIT["props"] = ["C01"]
_items = []
for _it in UNIT["items"]:
    if _it.get("methods"):
        _it["methods"] = {k: dict(v, props=["C01"]) for k, v in _it["methods"].items() if k in _KEEP}
        if not _it["methods"]:
            continue
    elif _it.get("kind") in ("fn", "macro_fn"):
        continue
    _items.append(_it)
UNIT["items"] = _items
