# C01 ("direct call vs apply"): the builtin `apply` of base.rs -- (apply proc a1 ... an list) applies proc, through apply_procedure,
# to exactly a1 ... an followed by the elements of list, in order.  Same extraction as unit base_pairs (C08), restricted to this
# function, with the clause about WHICH arguments switched on and the clauses about error kinds switched off.
import copy
import importlib.util as _u
import os as _os

_spec = _u.spec_from_file_location("base_pairs_for_apply", _os.path.join(_os.path.dirname(__file__), "base_pairs.py"))
_full = _u.module_from_spec(_spec)
_spec.loader.exec_module(_full)

_KEEP_FNS = {"apply"}
_KEEP_METHODS = {"expect_procedure", "expect_list"}
UNIT = copy.deepcopy(_full.UNIT)
UNIT["props"] = ["C01"]
UNIT["prelude"] = _full.PRELUDE_APPLY
UNIT["spec"] = ""
_items = []
for _it in UNIT["items"]:
    if _it.get("kind") in ("fn", "macro_fn"):
        if _it["name"] not in _KEEP_FNS:
            continue
        _it["props"] = ["C01"]
    if _it.get("methods"):
        _it["methods"] = {k: dict(v, props=["C01"]) for k, v in _it["methods"].items() if k in _KEEP_METHODS}
        if not _it["methods"]:
            continue
    _items.append(_it)
UNIT["items"] = _items
