# C13 (last sentence): Interpreter::get_library -- all imports of a library within one program refer to ONE instance.
# Real code under contract: src/interpreter/interpreter.rs  Interpreter::get_library
# The two tables (HashMap<LibraryName, Library>, HashMap<LibraryName, Rc<LibraryFactory>>) are std HashMaps under vstd's model
# with LibraryName ASSUMED a lawful key; file_library_factory / new_library (file reading, evaluation) are opaque relations.
import importlib.util as _u
import os as _os

_spec = _u.spec_from_file_location("interp_import_for_loader", _os.path.join(_os.path.dirname(__file__), "interp_import.py"))
_imp = _u.module_from_spec(_spec)
_spec.loader.exec_module(_imp)

I = "src/interpreter/interpreter.rs"
P = "src/parser/parser.rs"
E = "src/error.rs"

PRELUDE = r'''
pub trait RealNumberInternalTrait: Sized {}
#[verifier::external_body] #[verifier::reject_recursive_types(R)]
pub struct Library<R: RealNumberInternalTrait> { _p: core::marker::PhantomData<R> }          // library::Library (X2)
#[verifier::external_body] #[verifier::reject_recursive_types(R)]
pub struct LibraryFactory<'a, R: RealNumberInternalTrait> { _p: core::marker::PhantomData<&'a R> }   // (X2)
#[verifier::external_body] pub struct SchemeError { _p: () }
pub type Result<T> = core::result::Result<T, SchemeError>;

impl core::hash::Hash for LibraryName {
    #[verifier::external_body] fn hash<H: core::hash::Hasher>(&self, state: &mut H) { unimplemented!() }
}
impl PartialEq for LibraryName {
    #[verifier::external_body] fn eq(&self, other: &Self) -> bool { unimplemented!() }
}
impl Eq for LibraryName {}
#[verifier::external_body]
pub proof fn axiom_library_name_is_a_key()
    ensures vstd::std_specs::hash::obeys_key_model::<LibraryName>(),
{}
impl Clone for LibraryName {
    #[verifier::external_body] fn clone(&self) -> (r: Self) ensures r == *self { unimplemented!() }
}
impl<R: RealNumberInternalTrait> Clone for Library<R> {
    /// derive(Clone) on Library: the copy shares every value (procedures keep their frame): the SAME instance
    #[verifier::external_body] fn clone(&self) -> (r: Self) ensures r == *self { unimplemented!() }
}
/// `instantiate(factory)` may return lr (evaluation of the library body: an uninterpreted relation)
pub uninterp spec fn instantiate_rel<R: RealNumberInternalTrait>(f: LibraryFactory<'_, R>, lr: Result<Library<R>>) -> bool;
impl<'a, R: RealNumberInternalTrait> Interpreter<'a, R> {
    /// interpreter.rs file_library_factory: reads <program directory>/<name>.sld (file I/O: opaque); touches no table
    #[verifier::external_body]
    pub fn file_library_factory(&self, name: &Located<LibraryName>) -> (r: Result<LibraryFactory<'a, R>>) { unimplemented!() }
    /// interpreter.rs new_library: instantiates (evaluates) the library.  ASSUMED: nested loading only ADDS instances of
    /// OTHER libraries (it cannot instantiate the library that is being instantiated: the cycle detector, C14)
    #[verifier::external_body]
    pub fn new_library(&mut self, factory: &LibraryFactory<'a, R>) -> (r: Result<Library<R>>)
        ensures instantiate_rel(*factory, r),
            forall|k: LibraryName| #[trigger] old(self).lib_instances@.contains_key(k)
                ==> final(self).lib_instances@.contains_key(k) && final(self).lib_instances@[k] == old(self).lib_instances@[k],
    { unimplemented!() }
}
/// rule X3s: `map.entry(k).or_insert_with(|| Rc::new(v))` through a wrapper: the entry kept for k (an existing one wins)
#[verifier::external_body]
pub fn std_entry_or_insert<'m, 'a, R: RealNumberInternalTrait>(m: &'m mut std::collections::HashMap<LibraryName, Rc<LibraryFactory<'a, R>>>,
                                                            k: LibraryName, v: LibraryFactory<'a, R>) -> (r: &'m Rc<LibraryFactory<'a, R>>)
    ensures final(m)@.contains_key(k),
            *r == final(m)@[k],
            old(m)@.contains_key(k) ==> final(m)@ == old(m)@,
            !old(m)@.contains_key(k) ==> final(m)@ == old(m)@.insert(k, *r) && **r == v,
{ unimplemented!() }

// ------------------------------------------------------------------------------------------
// Specification (C13, last sentence)
// ------------------------------------------------------------------------------------------
/// one instance per program: a library that has an instance is handed out AS that instance and nothing changes; otherwise
/// a successful load records the new instance under the library's name (so every later import gets it) and keeps all others
pub open spec fn loader_post<R: RealNumberInternalTrait>(name: LibraryName, before: Map<LibraryName, Library<R>>, after: Map<LibraryName, Library<R>>,
                                                         r: Result<Library<R>>) -> bool {
    if before.contains_key(name) { r == Ok::<Library<R>, SchemeError>(before[name]) && after == before }
    else {
        &&& forall|k: LibraryName| #[trigger] before.contains_key(k) ==> after.contains_key(k) && after[k] == before[k]
        &&& r matches Ok(l) ==> after.contains_key(name) && after[name] == l
    }
}
'''

TYPE_ITEMS = [it for it in _imp.UNIT["items"] if it.get("name") in ("Located", "LibraryNameElement", "LibraryName")]

UNIT = {
    "props": ["C13"],
    "header": _imp.HEADER,
    "uses": "use std::rc::Rc;\nuse std::marker::PhantomData;\nuse std::collections::HashMap;",
    "rlimit": 40,
    "trusted": {
        "Library": "opaque type (X2)", "LibraryFactory": "opaque type (X2)", "SchemeError": "opaque type (X2)",
        "hash": "derive(Hash) on LibraryName (trusted lawful)", "eq": "derive(PartialEq) on LibraryName (trusted lawful)",
        "axiom_library_name_is_a_key": "ASSUMED: derive(Hash, Eq) make LibraryName a valid HashMap key (vstd obeys_key_model)",
        "clone": "derive(Clone): structural (trusted); a cloned Library shares its values",
        "file_library_factory": "file I/O: opaque, touches no table",
        "new_library": "ASSUMED: instantiating a library keeps every existing instance (nested loading only adds others)",
        "std_entry_or_insert": "ASSUMED (std): HashMap::entry(k).or_insert_with(..) keeps an existing entry, else inserts",
    },
    "prelude": PRELUDE,
    "items": TYPE_ITEMS + [
        {"kind": "struct", "file": I, "name": "LibraryLoader", "attrs": "#[verifier::reject_recursive_types(R)]"},
        {"kind": "struct", "file": I, "name": "Interpreter", "attrs": "#[verifier::reject_recursive_types(R)]",
         "rewrites": [("X14", r"pub env: Rc<Environment<R>>,", "", 1),
                      ("X14", r"imported_library: HashSet<LibraryName>,", "", 1),
                      ("X14", r"import_end: bool,[^\n]*\n\s*pub program_directory: Option<PathBuf>,", "", 1, "S"),
                      ("X14", r"_marker: PhantomData<R>,", "_marker: PhantomData<&'a R>,", 1)]},
        {"kind": "impl", "file": I, "impl": r"^impl<'a, R: RealNumberInternalTrait> Interpreter<'a, R>$",
         "require_source": [],
         "methods": {"get_library": {"props": ["C13", "C07"],
             "sig_rewrites": [("S1", r"-> Result<Library<R>>$", "-> (r: Result<Library<R>>)")],
             "rewrites": [
                 # X15: `name.deref()` / `&name` where `&LibraryName` is expected is `&name.data` (impl Deref for Located, checked)
                 ("X15", r"name\.deref\(\)", "(&name.data)", 1),
                 ("X15", r"lib_factories\.get\(&name\)", "lib_factories.get(&name.data)", 1),
                 ("X3s", r"self\.lib_loader\s*\.lib_factories\s*\.entry\(((?:[^()]|\([^()]*\))*)\)\s*\.or_insert_with\(\|\| Rc::new\((\w+)\)\)",
                  r"std_entry_or_insert(&mut self.lib_loader.lib_factories, \1, \2)", 1, "S"),
             ],
             # rule B1: the local holding the instantiated library is read from the code
             "bind": {"LIB": (r"let (\w+) = self\.new_library\(&\w+\)\?;", "library")},
             "body_start": "        broadcast use vstd::std_specs::hash::group_hash_axioms;\n        proof { axiom_library_name_is_a_key(); }\n        let ghost before = self.lib_instances@;",
             "inserts": [(r"let ${LIB} = self\.new_library\(&\w+\)\?;", "        proof { assert(self.lib_instances@ == before); }", None, "before"),
                         (r"let ${LIB} = self\.new_library\(&\w+\)\?;", "        let ghost mid = self.lib_instances@;"),
                         (r"Ok\(${LIB}\)\s*\}\s*$", "        proof { assert forall|k: LibraryName| #[trigger] before.contains_key(k) implies self.lib_instances@.contains_key(k) && self.lib_instances@[k] == before[k] by { assert(mid.contains_key(k)); } }", None, "before")],
             "contract": "        ensures loader_post(name.data, old(self).lib_instances@, final(self).lib_instances@, r),"}}},
    ],
    "spec": "",
}
# the Deref impl that rule X15 mirrors is checked on the Located item
for _it in UNIT["items"]:
    if _it.get("name") == "Located":
        _it["require_source"] = [r"impl<T> Deref for Located<T> \{\s*type Target = T;\s*fn deref\(&self\) -> &Self::Target \{\s*&self\.data\s*\}"]
