# C06 (lexer half): what text the scanner functions of the Lexer consume and which token they build from it.
# Real code under contract: src/parser/lexer.rs -- the same extraction as unit lexer_pos (C15), with FUNCTIONAL
# postconditions added; kept as a separate unit so that a change of a token's text alarms C06 and not C15.
import copy
import importlib.util as _u
import os as _os

_spec = _u.spec_from_file_location("lexer_pos_for_tok", _os.path.join(_os.path.dirname(__file__), "lexer_pos.py"))
_pos = _u.module_from_spec(_spec)
_spec.loader.exec_module(_pos)

_WF_POS = """pub open spec fn wf_lexer<CharIter: Iterator<Item = char>>(l: Lexer<CharIter>) -> bool {
    &&& (l.location[0] as int, l.location[1] as int) == pos_after((1, 1), consumed(l.peekable_char_stream))
    &&& consumed(l.peekable_char_stream).len() + rem(l.peekable_char_stream).len() + 1 < u32::MAX
}"""
# C06 needs of the position counters only that they cannot overflow; WHERE they point is C15's business (unit lexer_pos)
_WF_TOK = """pub open spec fn wf_lexer<CharIter: Iterator<Item = char>>(l: Lexer<CharIter>) -> bool {
    &&& l.location[0] + rem(l.peekable_char_stream).len() < u32::MAX
    &&& l.location[1] + rem(l.peekable_char_stream).len() < u32::MAX
}"""
assert _WF_POS in _pos.PRELUDE
PRELUDE = _pos.PRELUDE.replace(_WF_POS, _WF_TOK) + r'''
// ------------------------------------------------------------------------------------------
// Specification for C06: delimiters, atmosphere, identifiers, strings, numbers
// ------------------------------------------------------------------------------------------
pub open spec fn is_ws(c: char) -> bool { c == ' ' || c == '\t' || c == '\n' || c == '\r' }
/// R7RS 7.1.1 <delimiter>: whitespace | vertical line | ( | ) | " | ;
pub open spec fn is_delim(c: char) -> bool { is_ws(c) || c == '(' || c == ')' || c == '"' || c == ';' || c == '|' }
/// the remaining text starts with a delimiter or is empty: a token may end here
pub open spec fn at_delim(t: Seq<char>) -> bool { t.len() == 0 || is_delim(t[0]) }
pub open spec fn is_letter(c: char) -> bool { ('a' <= c && c <= 'z') || ('A' <= c && c <= 'Z') }
/// R7RS <initial>: <letter> | <special initial>     (the lexer also admits '@' here)
pub open spec fn is_initial(c: char) -> bool {
    is_letter(c) || c == '!' || c == '$' || c == '%' || c == '&' || c == '*' || c == '/' || c == ':' || c == '<'
        || c == '=' || c == '>' || c == '?' || c == '@' || c == '^' || c == '_' || c == '~'
}
/// R7RS <subsequent>: <initial> | <digit> | <special subsequent>
pub open spec fn is_subsequent(c: char) -> bool {
    is_initial(c) || is_digit(c) || c == '+' || c == '-' || c == '.' || c == '@'
}
/// length of the longest prefix of t whose characters all satisfy p
pub open spec fn run_len(t: Seq<char>, p: spec_fn(char) -> bool) -> nat
    decreases t.len()
{
    if t.len() > 0 && p(t[0]) { 1 + run_len(t.skip(1), p) } else { 0 }
}
pub proof fn lemma_run_len_bound(t: Seq<char>, p: spec_fn(char) -> bool)
    ensures run_len(t, p) <= t.len(),
        forall|i: int| 0 <= i < run_len(t, p) ==> p(#[trigger] t[i]),
        run_len(t, p) < t.len() ==> !p(t[run_len(t, p) as int]),
    decreases t.len()
{
    if t.len() > 0 && p(t[0]) {
        lemma_run_len_bound(t.skip(1), p);
        let n = run_len(t.skip(1), p);
        assert forall|i: int| 0 <= i < run_len(t, p) implies p(#[trigger] t[i]) by {
            if i > 0 { assert(t.skip(1)[i - 1] == t[i]); }
        }
        if run_len(t, p) < t.len() { assert(t.skip(1)[n as int] == t[n as int + 1]); }
    }
}
/// a run continues through a prefix whose characters all satisfy p
pub proof fn lemma_run_len_prefix(t: Seq<char>, p: spec_fn(char) -> bool, k: int)
    requires 0 <= k <= t.len(), forall|i: int| 0 <= i < k ==> p(#[trigger] t[i]),
    ensures run_len(t, p) == k + run_len(t.skip(k), p),
    decreases k
{
    if k > 0 {
        assert(p(t[0]));
        assert forall|i: int| 0 <= i < k - 1 implies p(#[trigger] t.skip(1)[i]) by { assert(t.skip(1)[i] == t[i + 1]); }
        lemma_run_len_prefix(t.skip(1), p, k - 1);
        assert(t.skip(1).skip(k - 1) =~= t.skip(k));
    } else {
        assert(t.skip(0) =~= t);
    }
}

// ---- atmosphere: where the next token starts ----
pub open spec fn is_eol(c: char) -> bool { c == '\n' || c == '\r' }
/// the text from the first character of the next token on: whitespace and `;` comments (up to the end of the line) are skipped
pub open spec fn next_start(t: Seq<char>, in_comment: bool) -> Seq<char>
    decreases t.len()
{
    if t.len() == 0 { t }
    else if in_comment { next_start(t.skip(1), !is_eol(t[0])) }
    else if is_ws(t[0]) { next_start(t.skip(1), false) }
    else if t[0] == ';' { next_start(t.skip(1), true) }
    else { t }
}
/// C06: "a token sequence denotes the same data whatever amount and kind of whitespace, line breaks and comments separate
/// the tokens" -- try_next's contract mentions the text only through next_start, and next_start ignores leading atmosphere:
pub proof fn lemma_leading_whitespace_is_ignored(ws: Seq<char>, t: Seq<char>)
    requires forall|i: int| 0 <= i < ws.len() ==> is_ws(#[trigger] ws[i]),
    ensures next_start(ws + t, false) == next_start(t, false),
    decreases ws.len()
{
    if ws.len() > 0 {
        assert((ws + t).skip(1) =~= ws.skip(1) + t);
        assert forall|i: int| 0 <= i < ws.skip(1).len() implies is_ws(#[trigger] ws.skip(1)[i]) by { assert(ws.skip(1)[i] == ws[i + 1]); }
        lemma_leading_whitespace_is_ignored(ws.skip(1), t);
    } else {
        assert(ws + t =~= t);
    }
}
/// ... and a comment line `; ... <eol>` between two tokens is ignored as well
pub proof fn lemma_comment_line_is_ignored(body: Seq<char>, eol: char, t: Seq<char>)
    requires is_eol(eol), forall|i: int| 0 <= i < body.len() ==> !is_eol(#[trigger] body[i]),
    ensures next_start(seq![';'] + body + seq![eol] + t, false) == next_start(t, false),
{
    let all = seq![';'] + body + seq![eol] + t;
    assert(all.skip(1) =~= body + seq![eol] + t);
    lemma_in_comment(body, eol, t);
}
pub proof fn lemma_in_comment(body: Seq<char>, eol: char, t: Seq<char>)
    requires is_eol(eol), forall|i: int| 0 <= i < body.len() ==> !is_eol(#[trigger] body[i]),
    ensures next_start(body + seq![eol] + t, true) == next_start(t, false),
    decreases body.len()
{
    let all = body + seq![eol] + t;
    if body.len() > 0 {
        assert(all[0] == body[0]);
        assert(all.skip(1) =~= body.skip(1) + seq![eol] + t);
        assert forall|i: int| 0 <= i < body.skip(1).len() implies !is_eol(#[trigger] body.skip(1)[i]) by { assert(body.skip(1)[i] == body[i + 1]); }
        lemma_in_comment(body.skip(1), eol, t);
    } else {
        assert(all[0] == eol);
        assert(all.skip(1) =~= t);
    }
}

// ---- what one call of try_next returns, as a relation between the text at the start of the token (c followed by t),
//      the result r and the text left afterwards t2 ----
pub open spec fn ok_token(r: Result<Option<TokenData>>, tok: TokenData) -> bool { r == Ok::<Option<TokenData>, SchemeError>(Some(tok)) }

/// an ordinary identifier: c followed by the maximal run of <subsequent> characters; must end at a delimiter
pub open spec fn ident_post(c: char, t: Seq<char>, r: Result<Option<TokenData>>, t2: Seq<char>) -> bool {
    let n = run_len(t, |c: char| is_subsequent(c)) as int;
    if at_delim(t.skip(n)) {
        r matches Ok(Some(TokenData::Identifier(s))) && s@ == seq![c] + t.take(n) && t2 == t.skip(n)
    } else { r is Err }
}
/// `#` forms.  KNOWN FINDING (hash-token-not-delimited): #t #f and #\c are accepted without a following delimiter
/// (the pinned test simple_tokens requires "#t#f()" to be two booleans) -- stated here as the code behaves.
pub open spec fn hash_post(t: Seq<char>, r: Result<Option<TokenData>>, t2: Seq<char>) -> bool {
    if t.len() == 0 { r is Err }
    else if t[0] == '(' { ok_token(r, TokenData::VecConsIntro) && t2 == t.skip(1) }
    else if t[0] == 't' { ok_token(r, TokenData::Primitive(Primitive::Boolean(true))) && t2 == t.skip(1) }
    else if t[0] == 'f' { ok_token(r, TokenData::Primitive(Primitive::Boolean(false))) && t2 == t.skip(1) }
    else if t[0] == '\\' { if t.len() > 1 { ok_token(r, TokenData::Primitive(Primitive::Character(t[1]))) && t2 == t.skip(2) } else { r is Err } }
    else if t[0] == 'u' { if t.len() >= 3 && t[1] == '8' && t[2] == '(' { ok_token(r, TokenData::ByteVecConsIntro) && t2 == t.skip(3) } else { r is Err } }
    else { r is Err }
}
pub open spec fn token_post(c: char, t: Seq<char>, r: Result<Option<TokenData>>, t2: Seq<char>) -> bool {
    if c == '(' { ok_token(r, TokenData::LeftParen) && t2 == t }
    else if c == ')' { ok_token(r, TokenData::RightParen) && t2 == t }
    else if c == '\'' { ok_token(r, TokenData::Quote) && t2 == t }
    else if c == '`' { ok_token(r, TokenData::Quasiquote) && t2 == t }
    else if c == ',' {
        if t.len() > 0 && t[0] == '@' { ok_token(r, TokenData::UnquoteSplicing) && t2 == t.skip(1) }
        else if t.len() > 0 { ok_token(r, TokenData::Unquote) && t2 == t }
        else { true }     // a comma at the very end of the text: not specified
    }
    else if c == '#' { hash_post(t, r, t2) }
    else if c == '.' { if at_delim(t) { ok_token(r, TokenData::Period) && t2 == t } else { peculiar_post(c, t, r, t2) } }
    else if c == '+' || c == '-' {
        if t.len() > 0 && (is_digit(t[0]) || t[0] == '.') { number_post(c, t, r, t2) } else { peculiar_post(c, t, r, t2) }
    }
    else if c == '"' { string_post(t, r, t2) }
    else if is_digit(c) { number_post(c, t, r, t2) }
    else if c == '|' { quoted_post(t, r, t2) }
    else { ident_post(c, t, r, t2) }
}
/// the result of try_next on a text whose atmosphere has been skipped
pub open spec fn lex_post(s: Seq<char>, r: Result<Option<TokenData>>, t2: Seq<char>) -> bool {
    if s.len() == 0 { r == Ok::<Option<TokenData>, SchemeError>(None) && t2.len() == 0 }
    else { token_post(s[0], s.skip(1), r, t2) }
}
/*SCANNER_SPECS*/
'''

SCANNER_SPECS = r'''
/// R7RS <dot subsequent> (<sign subsequent> | .) -- what may follow the sign or dot of a peculiar identifier
pub open spec fn is_dot_subsequent(c: char) -> bool { is_initial(c) || c == '+' || c == '-' || c == '.' || c == '@' }
/// how many characters of t continue a peculiar identifier: a <dot subsequent> followed by <subsequent>s, or none
pub open spec fn peculiar_len(t: Seq<char>) -> int {
    if t.len() > 0 && is_dot_subsequent(t[0]) { run_len(t, |c: char| is_subsequent(c)) as int } else { 0 }
}
/// a peculiar identifier (+ - ... and those starting with a sign or a dot): c and the continuation, ending at a delimiter
pub open spec fn peculiar_post(c: char, t: Seq<char>, r: Result<Option<TokenData>>, t2: Seq<char>) -> bool {
    let n = peculiar_len(t);
    if at_delim(t.skip(n)) {
        r matches Ok(Some(TokenData::Identifier(s))) && s@ == seq![c] + t.take(n) && t2 == t.skip(n)
    } else { r is Err }
}
/// the scanner consumed a prefix of t, leaving t2, and appended exactly the consumed characters to the literal
pub open spec fn ate(t: Seq<char>, t2: Seq<char>, lit0: Seq<char>, lit1: Seq<char>) -> bool {
    let k = t.len() - t2.len();
    0 <= k <= t.len() && t2 == t.skip(k) && lit1 == lit0 + t.take(k)
}
pub broadcast proof fn lemma_ate_trans(t: Seq<char>, t2: Seq<char>, t3: Seq<char>, l0: Seq<char>, l1: Seq<char>, l2: Seq<char>)
    requires #[trigger] ate(t, t2, l0, l1), #[trigger] ate(t2, t3, l1, l2),
    ensures ate(t, t3, l0, l2),
{
    let k1 = t.len() - t2.len(); let k2 = t2.len() - t3.len();
    assert(t.skip(k1).skip(k2) =~= t.skip(k1 + k2));
    assert(t.take(k1) + t.skip(k1).take(k2) =~= t.take(k1 + k2));
    assert(l0 + t.take(k1) + t.skip(k1).take(k2) =~= l0 + (t.take(k1) + t.skip(k1).take(k2)));
}
pub proof fn lemma_ate_one(t: Seq<char>, l0: Seq<char>)
    requires t.len() > 0,
    ensures ate(t, t.skip(1), l0, l0.push(t[0])), ate(t, t, l0, l0),
{
    assert(t.take(1) =~= seq![t[0]]);
    assert(l0 + t.take(1) =~= l0.push(t[0]));
    assert(t.skip(0) =~= t); assert(l0 + t.take(0) =~= l0);
}
/// what str::parse::<T> makes of a text (std; uninterpreted here: the decimal value for the integer types)
pub uninterp spec fn parsed<T>(s: Seq<char>) -> Option<T>;
/// a number token that starts with c (a digit or a sign) followed by t
pub open spec fn number_post(c: char, t: Seq<char>, r: Result<Option<TokenData>>, t2: Seq<char>) -> bool {
    let d = run_len(t, |c: char| is_digit(c)) as int;
    let lit = seq![c] + t.take(d);
    let after = t.skip(d);
    if after.len() > 0 && after[0] == '/' {
        // ratio: digits '/' digits, ending at a delimiter; the denominator is not zero
        let d2 = run_len(after.skip(1), |c: char| is_digit(c)) as int;
        let den = after.skip(1).take(d2);
        let rest = after.skip(1).skip(d2);
        match (parsed::<i32>(lit), parsed::<u32>(den)) {
            (Some(n), Some(m)) => if at_delim(rest) && m != 0 { ok_token(r, TokenData::Primitive(Primitive::Rational(n, m))) && t2 == rest } else { r is Err },
            _ => r is Err,
        }
    } else if after.len() > 0 && (after[0] == '.' || after[0] == 'e') {
        // decimal: the token is the text consumed, and it ends at a delimiter
        r matches Ok(tok) ==> tok matches Some(TokenData::Primitive(Primitive::Real(s))) && ate(t, t2, seq![c], s@) && at_delim(t2)
    } else {
        // integer: sign and digits, ending at a delimiter
        match parsed::<i32>(lit) {
            Some(n) => if at_delim(after) { ok_token(r, TokenData::Primitive(Primitive::Integer(n))) && t2 == after } else { r is Err },
            None => r is Err,
        }
    }
}
/// R7RS mnemonic escapes (and \" \\ \|) inside a string
pub open spec fn escape_char(c: char) -> Option<char> {
    if c == 'a' { Some('\u{7}') } else if c == 'b' { Some('\u{8}') } else if c == 't' { Some('\u{9}') }
    else if c == 'n' { Some('\n') } else if c == 'r' { Some('\r') }
    else if c == '"' { Some('"') } else if c == '\\' { Some('\\') } else if c == '|' { Some('|') }
    else { None }
}
pub enum StrScan { Done(Seq<char>, Seq<char>), Bad, Unspecified }
/// scanning a string body after the opening quote: Done(contents, text after the closing quote); Bad: not terminated, or an
/// unknown escape; Unspecified: the escapes \x.. and \<space>, which this lexer does not translate (stated, not claimed)
pub open spec fn scan_string(t: Seq<char>, acc: Seq<char>) -> StrScan
    decreases t.len()
{
    if t.len() == 0 { StrScan::Bad }
    else if t[0] == '"' { StrScan::Done(acc, t.skip(1)) }
    else if t[0] == '\\' {
        if t.len() < 2 { StrScan::Bad }
        else if t[1] == 'x' || t[1] == ' ' { StrScan::Unspecified }
        else { match escape_char(t[1]) { Some(e) => scan_string(t.skip(2), acc.push(e)), None => StrScan::Bad } }
    } else { scan_string(t.skip(1), acc.push(t[0])) }
}
/// a string literal: every character stands for itself, an escape for the character R7RS assigns to it; it ends at the
/// first unescaped double quote, which is consumed
pub open spec fn string_post(t: Seq<char>, r: Result<Option<TokenData>>, t2: Seq<char>) -> bool {
    match scan_string(t, Seq::<char>::empty()) {
        StrScan::Done(contents, rest) => r matches Ok(Some(TokenData::Primitive(Primitive::String(s)))) && s@ == contents && t2 == rest,
        StrScan::Bad => r is Err,
        StrScan::Unspecified => true,
    }
}
/// |...|: the identifier is the text up to the next vertical line, which is consumed; without one it is an error
pub open spec fn quoted_post(t: Seq<char>, r: Result<Option<TokenData>>, t2: Seq<char>) -> bool {
    let n = run_len(t, |c: char| c != '|') as int;
    if n < t.len() { r matches Ok(Some(TokenData::Identifier(s))) && s@ == t.take(n) && t2 == t.skip(n + 1) }
    else { r is Err }
}
'''

UNIT = copy.deepcopy(_pos.UNIT)
UNIT["props"] = ["C06"]
UNIT["prelude"] = PRELUDE.replace("/*SCANNER_SPECS*/", SCANNER_SPECS).replace(
    "pub assume_specification<F: core::str::FromStr>[ str::parse::<F> ](s: &str) -> (r: core::result::Result<F, F::Err>);",
    "pub assume_specification<F: core::str::FromStr>[ str::parse::<F> ](s: &str) -> (r: core::result::Result<F, F::Err>)\n"
    "    ensures match parsed::<F>(s@) { Some(v) => r == Ok::<F, F::Err>(v), None => r is Err };")
assert "parsed::<F>(s@)" in UNIT["prelude"]
UNIT["trusted"]["parse"] = "ASSUMED std contract: str::parse::<T> is a function of the text (parsed::<T>, uninterpreted: the decimal value for i32/u32)"
UNIT["rlimit"] = 60


def _methods():
    for it in UNIT["items"]:
        if it.get("kind") == "impl" and "Lexer<CharIter>$" in it.get("impl", "") and "Iterator for" not in it.get("impl", ""):
            return it["methods"]
    raise KeyError


def _item(name):
    for it in UNIT["items"]:
        if it.get("name") == name:
            return it
    raise KeyError(name)


# every function of this unit is attributed to C06 only
for _it in UNIT["items"]:
    if "props" in _it:
        _it["props"] = ["C06"]
    for _m in (_it.get("methods") or {}).values():
        _m["props"] = ["C06"]

M = _methods()
WF = "wf_lexer(*final(self)), rem(final(self).peekable_char_stream).len() <= rem(old(self).peekable_char_stream).len(),"

_item("is_identifier_initial").update({
    "sig_rewrites": [("S1", r"-> bool$", "-> (r: bool)")],
    "contract": "    ensures r == is_initial(c),"})

M["test_delimiter"].update({
    "sig_rewrites": [("S1", r"-> Result<\(\)>$", "-> (r: Result<()>)")],
    "contract": "        ensures r is Ok <==> is_delim(c),"})

# digital10: appends the maximal run of digits to the literal and consumes exactly that run
M["digital10"].update({
    "sig_rewrites": [("S1", r"-> Result<\(\)>$", "-> (r: Result<()>)")],
    "contract": """        requires wf_lexer(*old(self)),
        ensures """ + WF + """
            rem(old(self).peekable_char_stream).len() > 0 && is_digit(rem(old(self).peekable_char_stream)[0])
                ==> rem(final(self).peekable_char_stream).len() < rem(old(self).peekable_char_stream).len(),
            // C06: exactly the maximal run of digits is consumed and appended, in order; never an error
            r is Ok,
            ({ let t = rem(old(self).peekable_char_stream); let n = run_len(t, |c: char| is_digit(c)) as int;
               &&& final(number_literal)@ == old(number_literal)@ + t.take(n)
               &&& rem(final(self).peekable_char_stream) == t.skip(n) }),""",
    "loops": {1: {"expect_kw": "loop", "invariant": """            invariant wf_lexer(*self),
                rem(self.peekable_char_stream).len() < rem(old(self).peekable_char_stream).len()
                    || rem(self.peekable_char_stream) == rem(old(self).peekable_char_stream),
                ({ let t = rem(old(self).peekable_char_stream);
                   let k = t.len() - rem(self.peekable_char_stream).len();
                   &&& 0 <= k <= t.len()
                   &&& rem(self.peekable_char_stream) == t.skip(k)
                   &&& number_literal@ == old(number_literal)@ + t.take(k)
                   &&& forall|i: int| 0 <= i < k ==> is_digit(#[trigger] t[i]) }),
            decreases rem(self.peekable_char_stream).len(),""",
                  "body_start": """            proof {
                let t = rem(old(self).peekable_char_stream);
                let k = t.len() - rem(self.peekable_char_stream).len();
                lemma_run_len_prefix(t, |c: char| is_digit(c), k);
                if k < t.len() {
                    assert(t.skip(k)[0] == t[k]);
                    assert(t.take(k + 1) =~= t.take(k).push(t[k]));
                    assert(t.skip(k).skip(1) =~= t.skip(k + 1));
                } else {
                    assert(t.take(k) =~= t);
                }
            }"""}}})

_X6 = _pos.UNIT["items"][-2]["methods"]["normal_identifier"]["rewrites"]

# normal_identifier: current character + the maximal run of <subsequent> characters, which must end at a delimiter
M["normal_identifier"].update({
    "attrs": "#[verifier::loop_isolation(false)]\n#[verifier::allow_complex_invariants]",
    "sig_rewrites": [("S1", r"-> Result<Option<TokenData>>$", "-> (r: Result<Option<TokenData>>)")],
    "contract": """        requires wf_lexer(*old(self)),
        ensures """ + WF + """
            // C06: the identifier is the current character followed by the maximal run of <subsequent> characters,
            // exactly those are consumed, and the token ends only at a delimiter (or the end of the text)
            match old(self).current {
                None => r == Ok::<Option<TokenData>, SchemeError>(None),
                Some(c) => ident_post(c, rem(old(self).peekable_char_stream), r, rem(final(self).peekable_char_stream)),
            },""",
    "loops": {1: {"expect_kw": "while", "invariant": """            invariant wf_lexer(*self), rem(self.peekable_char_stream).len() <= rem(old(self).peekable_char_stream).len(),
                old(self).current == Some(c),
                ({ let t = rem(old(self).peekable_char_stream);
                   let k = t.len() - rem(self.peekable_char_stream).len();
                   &&& 0 <= k <= t.len()
                   &&& rem(self.peekable_char_stream) == t.skip(k)
                   &&& identifier_str@ == seq![c] + t.take(k)
                   &&& run_len(t, |c: char| is_subsequent(c)) == k + run_len(t.skip(k), |c: char| is_subsequent(c))
                   &&& forall|i: int| 0 <= i < k ==> is_subsequent(#[trigger] t[i]) }),
            ensures at_delim(rem(self.peekable_char_stream)),
            decreases rem(self.peekable_char_stream).len(),""",
                  }},
    "inserts": [(r"identifier_str\.push\(c\);", """                proof {
                    let t = rem(old(self).peekable_char_stream);
                    assert(t.skip(0) =~= t); assert(t.take(0) =~= Seq::<char>::empty());
                    assert(identifier_str@ =~= seq![c] + t.take(0));
                }"""),
                (r"self\.advance\(1\);", """                    proof {
                        let t = rem(old(self).peekable_char_stream);
                        let k = t.len() - rem(self.peekable_char_stream).len();
                        lemma_run_len_prefix(t, |c: char| is_subsequent(c), k);
                        lemma_run_len_prefix(t, |c: char| is_subsequent(c), k + 1);
                        assert(t.skip(k)[0] == t[k]);
                        assert(t.take(k + 1) =~= t.take(k).push(t[k]));
                        assert(t.skip(k).skip(1) =~= t.skip(k + 1));
                        assert((seq![c] + t.take(k)).push(t[k]) =~= seq![c] + t.take(k + 1));
                    }""", None, "before"),
                (r"self\.advance\(1\);\s*\}",
                 """                proof {
                    let t = rem(old(self).peekable_char_stream);
                    let k = t.len() - rem(self.peekable_char_stream).len();
                    lemma_run_len_prefix(t, |c: char| is_subsequent(c), k);
                    assert(run_len(t.skip(k), |c: char| is_subsequent(c)) == 0);
                }""")],
})


M["try_next"].update({
    "sig_rewrites": [("S1", r"-> Result<Option<TokenData>>$", "-> (r: Result<Option<TokenData>>)")],
    "contract": """        requires wf_lexer(*old(self)),
        ensures """ + WF + """
            // C06: the token (or the end of the text) found after skipping the atmosphere in front of it
            lex_post(next_start(rem(old(self).peekable_char_stream), false), r, rem(final(self).peekable_char_stream)),
        decreases rem(old(self).peekable_char_stream).len(), 0int,""",
    "inserts": [(r"match self\.advance\(1\) \{\s*Some\(c\) => match c \{", """        proof {
            let t0 = rem(self.peekable_char_stream);
            if t0.len() >= 2 { assert(t0.skip(1).skip(1) =~= t0.skip(2)); }
            if t0.len() >= 3 { assert(t0.skip(1).skip(2) =~= t0.skip(3)); assert(t0.skip(2).skip(1) =~= t0.skip(3)); }
            if t0.len() >= 4 { assert(t0.skip(1).skip(3) =~= t0.skip(4)); assert(t0.skip(3).skip(1) =~= t0.skip(4)); }
        }""", None, "before")]})
M["atmosphere"].update({
    "sig_rewrites": [("S1", r"-> Result<Option<TokenData>>$", "-> (r: Result<Option<TokenData>>)")],
    "contract": """        requires wf_lexer(*old(self)),
        ensures """ + WF + """
            lex_post(next_start(rem(old(self).peekable_char_stream), false), r, rem(final(self).peekable_char_stream)),
        decreases rem(old(self).peekable_char_stream).len(), 1int,""",
    "loops": {1: {"expect_kw": "while", "invariant": """            invariant wf_lexer(*self), rem(self.peekable_char_stream).len() <= rem(old(self).peekable_char_stream).len(),
                next_start(rem(self.peekable_char_stream), false) == next_start(rem(old(self).peekable_char_stream), false),
            decreases rem(self.peekable_char_stream).len(),"""}}})
M["comment"].update({
    "attrs": "#[verifier::loop_isolation(false)]\n#[verifier::allow_complex_invariants]",
    "sig_rewrites": [("S1", r"-> Result<Option<TokenData>>$", "-> (r: Result<Option<TokenData>>)")],
    "contract": """        requires wf_lexer(*old(self)),
        ensures """ + WF + """
            lex_post(next_start(rem(old(self).peekable_char_stream), true), r, rem(final(self).peekable_char_stream)),
        decreases rem(old(self).peekable_char_stream).len(), 1int,""",
    "loops": {1: {"expect_kw": "while", "invariant": """            invariant wf_lexer(*self), rem(self.peekable_char_stream).len() <= rem(old(self).peekable_char_stream).len(),
                next_start(rem(self.peekable_char_stream), true) == next_start(rem(old(self).peekable_char_stream), true),
            ensures rem(self.peekable_char_stream).len() == 0 || is_eol(rem(self.peekable_char_stream)[0]),
            decreases rem(self.peekable_char_stream).len(),"""}}})

# advance: the returned reference IS `self.current` (needed where a scanner reads self.current after try_next's advance)
M["advance"]["contract"] = M["advance"]["contract"].replace(
    "            &&& count == 0 ==> *r == old(self).current",
    "            &&& final(self).current == *final(r)\n            &&& count == 0 ==> *r == old(self).current")


M["quoted_identifier"].update({
    "sig_rewrites": [("S1", r"-> Result<Option<TokenData>>$", "-> (r: Result<Option<TokenData>>)")],
    "contract": """        requires wf_lexer(*old(self)),
        ensures """ + WF + """
            quoted_post(rem(old(self).peekable_char_stream), r, rem(final(self).peekable_char_stream)),""",
    "loops": {1: {"expect_kw": "loop", "invariant": """            invariant wf_lexer(*self), rem(self.peekable_char_stream).len() <= rem(old(self).peekable_char_stream).len(),
                ({ let t = rem(old(self).peekable_char_stream);
                   let k = t.len() - rem(self.peekable_char_stream).len();
                   &&& 0 <= k <= t.len()
                   &&& rem(self.peekable_char_stream) == t.skip(k)
                   &&& identifier_str@ == t.take(k)
                   &&& forall|i: int| 0 <= i < k ==> #[trigger] t[i] != '|' }),
            decreases rem(self.peekable_char_stream).len(),""",
                  "body_start": """            proof {
                let t = rem(old(self).peekable_char_stream);
                let k = t.len() - rem(self.peekable_char_stream).len();
                lemma_run_len_prefix(t, |c: char| c != '|', k);
                lemma_run_len_bound(t.skip(k), |c: char| c != '|');
                if k < t.len() {
                    assert(t.skip(k)[0] == t[k]);
                    assert(t.take(k + 1) =~= t.take(k).push(t[k]));
                    assert(t.skip(k).skip(1) =~= t.skip(k + 1));
                } else { assert(t.take(k) =~= t); }
            }"""}}})


M["string"].update({
    "sig_rewrites": [("S1", r"-> Result<Option<TokenData>>$", "-> (r: Result<Option<TokenData>>)")],
    "contract": """        requires wf_lexer(*old(self)),
        ensures """ + WF + """
            old(self).current is Some ==> string_post(rem(old(self).peekable_char_stream), r, rem(final(self).peekable_char_stream)),""",
    "loops": {1: {"expect_kw": "loop", "invariant": """            invariant wf_lexer(*self), rem(self.peekable_char_stream).len() <= rem(old(self).peekable_char_stream).len(),
                scan_string(rem(old(self).peekable_char_stream), Seq::<char>::empty()) is Unspecified
                    || scan_string(rem(old(self).peekable_char_stream), Seq::<char>::empty())
                        == scan_string(rem(self.peekable_char_stream), string_literal@),
            decreases rem(self.peekable_char_stream).len(),""",
                  "body_start": """                    proof {
                        let tr = rem(self.peekable_char_stream);
                        if tr.len() >= 2 { assert(tr.skip(1).skip(1) =~= tr.skip(2)); }
                    }"""}}})


ATE = "ate(rem(old(self).peekable_char_stream), rem(final(self).peekable_char_stream), old(number_literal)@, final(number_literal)@)"
M["parse_number"].update({
    "sig_rewrites": [("S1", r"-> Result<T>$", "-> (r: Result<T>)")],
    "contract": "        ensures match parsed::<T>(literal@) { Some(v) => r == Ok::<T, SchemeError>(v), None => r is Err },"})
M["digital10"]["contract"] += "\n            " + ATE + ","
M["number_suffix"].update({
    "sig_rewrites": [("S1", r"-> Result<\(\)>$", "-> (r: Result<()>)")],
    "contract": """        requires wf_lexer(*old(self)), rem(old(self).peekable_char_stream).len() > 0, rem(old(self).peekable_char_stream)[0] == 'e',
        ensures """ + WF + """
            // C06: the literal grows by exactly the characters consumed, and on success the number ends at a delimiter
            """ + ATE + """,
            r is Ok ==> at_delim(rem(final(self).peekable_char_stream)),""",
    "inserts": [(r"self\.advance\(1\);\s*number_literal\.push\('e'\);", """        proof {
            broadcast use lemma_ate_trans;
            let t = rem(old(self).peekable_char_stream);
            lemma_ate_one(t, old(number_literal)@);
            if rem(self.peekable_char_stream).len() > 0 { lemma_ate_one(rem(self.peekable_char_stream), number_literal@); }
        }""")]})

M["real"].update({
    "sig_rewrites": [("S1", r"-> Result<\(\)>$", "-> (r: Result<()>)")],
    "contract": """        requires wf_lexer(*old(self)), rem(old(self).peekable_char_stream).len() > 0, rem(old(self).peekable_char_stream)[0] == '.',
        ensures """ + WF + """
            """ + ATE + """,
            r is Ok ==> at_delim(rem(final(self).peekable_char_stream)),""",
    "inserts": [(r"number_literal\.push\('\.'\);", """        broadcast use lemma_ate_trans;""", None, "before"),
                (r"number_literal\.push\('\.'\);\s*self\.advance\(1\);", """        proof {
            let t = rem(old(self).peekable_char_stream);
            lemma_ate_one(t, old(number_literal)@);
            if rem(self.peekable_char_stream).len() > 0 { lemma_ate_one(rem(self.peekable_char_stream), number_literal@); }
        }""")]})

M["number"].update({
    "contract": """        requires wf_lexer(*old(self)),
        ensures """ + WF + """
            // a ratio literal never has denominator 0 (relied upon by eval_primitive)
            r matches Ok(Some(TokenData::Primitive(Primitive::Rational(_, d)))) ==> d != 0,
            match old(self).current {
                None => r == Ok::<Option<TokenData>, SchemeError>(None),
                Some(c) => number_post(c, rem(old(self).peekable_char_stream), r, rem(final(self).peekable_char_stream)),
            },""",
    "loops": {1: {"expect_kw": "loop", "invariant": """            invariant wf_lexer(*self), rem(self.peekable_char_stream).len() <= rem(old(self).peekable_char_stream).len(),
                old(self).current == Some(c),
                ({ let t = rem(old(self).peekable_char_stream);
                   let k = t.len() - rem(self.peekable_char_stream).len();
                   &&& ate(t, rem(self.peekable_char_stream), seq![c], number_literal@)
                   &&& forall|i: int| 0 <= i < k ==> is_digit(#[trigger] t[i]) }),
            decreases rem(self.peekable_char_stream).len(),""",
                  "body_start": """                    broadcast use lemma_ate_trans;
                    proof {
                        let t = rem(old(self).peekable_char_stream);
                        let k = t.len() - rem(self.peekable_char_stream).len();
                        lemma_run_len_prefix(t, |c: char| is_digit(c), k);
                        lemma_run_len_bound(t.skip(k), |c: char| is_digit(c));
                        if k < t.len() { assert(t.skip(k)[0] == t[k]); lemma_ate_one(t.skip(k), number_literal@); }
                        else { assert(t.take(k) =~= t); }
                        let n2 = run_len(t.skip(k), |c: char| is_digit(c)) as int;
                        assert forall|i: int| 0 <= i < k + n2 implies is_digit(#[trigger] t[i]) by {
                            if i >= k { assert(t.skip(k)[i - k] == t[i]); }
                        }
                    }"""}},
    "inserts": [(r"number_literal\.push\(c\);", """                proof {
                    let t = rem(old(self).peekable_char_stream);
                    assert(t.skip(0) =~= t); assert(seq![c] + t.take(0) =~= seq![c]);
                    assert(number_literal@ =~= seq![c]);
                }""")]})


M["dot_subsequent"].update({
    "attrs": "#[verifier::loop_isolation(false)]\n#[verifier::allow_complex_invariants]",
    "sig_rewrites": [("S1", r"-> Result<\(\)>$", "-> (r: Result<()>)")],
    "contract": """        requires wf_lexer(*old(self)),
        ensures """ + WF + """
            ({ let t = rem(old(self).peekable_char_stream); let n = peculiar_len(t);
               if at_delim(t.skip(n)) {
                   r is Ok && rem(final(self).peekable_char_stream) == t.skip(n)
                       && final(identifier_str)@ == old(identifier_str)@ + t.take(n)
               } else { r is Err } }),""",
    "loops": {1: {"expect_kw": "loop", "invariant": """            invariant wf_lexer(*self), rem(self.peekable_char_stream).len() <= rem(old(self).peekable_char_stream).len(),
                ({ let t = rem(old(self).peekable_char_stream);
                   let k = t.len() - rem(self.peekable_char_stream).len();
                   &&& 0 <= k <= t.len()
                   &&& t.len() > 0 && is_dot_subsequent(t[0])
                   &&& rem(self.peekable_char_stream) == t.skip(k)
                   &&& identifier_str@ == old(identifier_str)@ + t.take(k)
                   &&& run_len(t, |c: char| is_subsequent(c)) == k + run_len(t.skip(k), |c: char| is_subsequent(c))
                   &&& forall|i: int| 0 <= i < k ==> is_subsequent(#[trigger] t[i]) }),
            ensures at_delim(rem(self.peekable_char_stream)),
            decreases rem(self.peekable_char_stream).len(),""",
                  "body_start": """                    proof {
                        let t = rem(old(self).peekable_char_stream);
                        let k = t.len() - rem(self.peekable_char_stream).len();
                        lemma_run_len_prefix(t, |c: char| is_subsequent(c), k);
                        if k < t.len() {
                            assert(t.skip(k)[0] == t[k]);
                            assert(t.take(k + 1) =~= t.take(k).push(t[k]));
                            assert(t.skip(k).skip(1) =~= t.skip(k + 1));
                            assert((old(identifier_str)@ + t.take(k)).push(t[k]) =~= old(identifier_str)@ + t.take(k + 1));
                            if is_subsequent(t[k]) { lemma_run_len_prefix(t, |c: char| is_subsequent(c), k + 1); }
                        } else { assert(t.take(k) =~= t); }
                    }"""}},
    "inserts": [(r"if let Some\(c\) = self\.peekable_char_stream\.peek\(\) \{", """        proof {
            let t = rem(self.peekable_char_stream);
            assert(t.skip(0) =~= t); assert(identifier_str@ + t.take(0) =~= identifier_str@);
        }""", None, "before")]})

M["percular_identifier"].update({
    "sig_rewrites": [("S1", r"-> Result<Option<TokenData>>$", "-> (r: Result<Option<TokenData>>)")],
    "contract": """        requires wf_lexer(*old(self)),
            // the call sites in try_next: after a sign that is not followed by a digit or a dot, or after a dot that is
            // not followed by a delimiter
            old(self).current matches Some(c) ==> (c == '.' || ((c == '+' || c == '-')
                && !(rem(old(self).peekable_char_stream).len() > 0 && rem(old(self).peekable_char_stream)[0] == '.'))),
        ensures """ + WF + """
            match old(self).current {
                None => r == Ok::<Option<TokenData>, SchemeError>(None),
                Some(c) => peculiar_post(c, rem(old(self).peekable_char_stream), r, rem(final(self).peekable_char_stream)),
            },""",
    "inserts": [(r"identifier_str\.push\(c\);", """                proof {
                    let t = rem(self.peekable_char_stream);
                    assert(t.skip(0) =~= t); assert(seq![c] + t.take(0) =~= seq![c]);
                    assert(identifier_str@ =~= seq![c]);
                }""")]})

# <Lexer as Iterator>::next (rule X11): the token it yields is try_next's, stamped with the position
for _it in UNIT["items"]:
    if _it.get("kind") == "impl" and "Iterator for" in _it.get("impl", ""):
        _it["methods"]["next"]["contract"] = """        requires wf_lexer(*old(self)),
        ensures
            wf_lexer(*final(self)),
            ({ let s = next_start(rem(old(self).peekable_char_stream), false); let t2 = rem(final(self).peekable_char_stream);
               match r {
                   None => lex_post(s, Ok::<Option<TokenData>, SchemeError>(None), t2),
                   Some(Ok(tok)) => lex_post(s, Ok::<Option<TokenData>, SchemeError>(Some(tok.data)), t2),
                   Some(Err(e)) => lex_post(s, Err::<Option<TokenData>, SchemeError>(e), t2),
               } }),"""


# rule B1: the locals the ghost text mentions are read from the code
import re as _re
_ID = (r"let mut (\w+) = String::new\(\);", "identifier_str")
_CUR = (r"Some\((\w+)\) => \{\s*let mut \w+ = String::new\(\);", "c")
def _bind(method, mapping, binds):
    m = M[method]
    m["bind"] = binds
    def sub(t):
        if isinstance(t, str):
            for old, new in mapping:
                t = _re.sub(old, new, t)
            return t
        if isinstance(t, dict):
            return {k: sub(v) for k, v in t.items()}
        if isinstance(t, (list, tuple)):
            return type(t)(sub(x) if not (isinstance(x, str) and x in ("before",)) else x for x in t)
        return t
    for fld in ("loops", "inserts"):       # the contract has its own binders
        if fld in m:
            m[fld] = sub(m[fld])
_bind("normal_identifier", [(r"\bidentifier_str\b", "${ID}"), (r"seq!\[c\]", "seq![${CUR}]"), (r"Some\(c\)", "Some(${CUR})"),
                            (r"push\\\(c\\\)", r"push\\(${CUR}\\)")], {"ID": _ID, "CUR": _CUR})
_bind("quoted_identifier", [(r"\bidentifier_str\b", "${ID}")], {"ID": _ID})
_bind("string", [(r"\bstring_literal\b", "${LIT}")], {"LIT": (r"let mut (\w+) = String::new\(\);", "string_literal")})

for _it in UNIT["items"]:
    if _it.get("kind") == "auto_pure_fns":
        _it["spec_names"] = {"is_identifier_initial": "is_initial"}
_bind("number", [(r"\bnumber_literal\b", "${LIT}"), (r"seq!\[c\]", "seq![${CUR}]"), (r"Some\(c\)", "Some(${CUR})"),
                 (r"push\\\(c\\\)", r"push\\(${CUR}\\)")],
      {"LIT": (r"let mut (\w+) = String::new\(\);", "number_literal"), "CUR": _CUR})
