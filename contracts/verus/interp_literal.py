# C06 (last mechanism: "read_literal turns data into values") and C03 ("a literal vector is a constant"):
#   Interpreter::read_literal and Interpreter::eval_primitive -- the value a quoted datum / a literal evaluates to.
# Real code under contract: src/interpreter/interpreter.rs  Interpreter::read_literal, Interpreter::eval_primitive
# Two variants of the unit (one obligation belongs to one property):
#   interp_literal        (C06)  the value has the structure of the datum; whether a vector is mutable is not mentioned
#   interp_literal_const  (C03)  a vector datum becomes an IMMUTABLE vector object (at every nesting depth); leaves not mentioned
import importlib.util as _u
import os as _os

_spec = _u.spec_from_file_location("base_cmp_for_literal", _os.path.join(_os.path.dirname(__file__), "base_cmp.py"))
_cmp = _u.module_from_spec(_spec)
_spec.loader.exec_module(_cmp)

I = "src/interpreter/interpreter.rs"
D = "src/parser/datum.rs"
V = "src/values.rs"

_OPAQUE_DATUM = "#[verifier::external_body] pub struct Datum { _p: () }           // parser::Datum = Located<DatumBody>\n"
assert _OPAQUE_DATUM in _cmp.OPAQUE_PRELUDE
_STRUCT_ON = "pub open spec fn struct_clause(b: bool) -> bool { b }"
_STRUCT_OFF = "pub open spec fn struct_clause(b: bool) -> bool { true }"
_CONST_ON = "pub open spec fn const_clause(b: bool) -> bool { b }"
_CONST_OFF = "pub open spec fn const_clause(b: bool) -> bool { true }"

PRELUDE = _cmp.OPAQUE_PRELUDE.replace(_OPAQUE_DATUM, "") + r'''
pub assume_specification<T: ?Sized, A: core::alloc::Allocator>[ <Box<T, A> as core::convert::AsRef<T>>::as_ref ](b: &Box<T, A>) -> (r: &T)
    ensures r == &**b;
// ---- vectors: ValueReference<Vec<Value>> is opaque (Rc / RefCell); what it holds and whether it may be written are ghost ----
pub uninterp spec fn vec_contents<R: RealNumberInternalTrait>(v: ValueReference<Vec<Value<R>>>) -> Seq<Value<R>>;
pub uninterp spec fn is_mutable_vec<R: RealNumberInternalTrait>(v: ValueReference<Vec<Value<R>>>) -> bool;
impl<R: RealNumberInternalTrait> ValueReference<Vec<Value<R>>> {
    /// values.rs ValueReference::new_immutable (Self::Immutable(Rc::new(t))): as_mut on it is RequiresMutable (unit valref_mut)
    #[verifier::external_body]
    pub fn new_immutable(t: Vec<Value<R>>) -> (r: Self) ensures vec_contents(r) == t@, !is_mutable_vec(r) { unimplemented!() }
    /// values.rs ValueReference::new_mutable (declared so that code choosing it is an obligation, not a build failure)
    #[verifier::external_body]
    pub fn new_mutable(t: Vec<Value<R>>) -> (r: Self) ensures vec_contents(r) == t@, is_mutable_vec(r) { unimplemented!() }
}
/// (the numeric vocabulary of unit values_num)
pub open spec fn is_exact<R: RealNumberInternalTrait>(n: Number<R>) -> bool { !(n is Real) }
pub open spec fn numer<R: RealNumberInternalTrait>(n: Number<R>) -> int {
    match n { Number::Integer(a) => a as int, Number::Rational(a, _) => a as int, Number::Real(_) => 0 }
}
pub open spec fn denom<R: RealNumberInternalTrait>(n: Number<R>) -> int {
    match n { Number::Integer(_) => 1, Number::Rational(_, b) => b as int, Number::Real(_) => 1 }
}
impl<R: RealNumberInternalTrait> Number<R> {
    /// values.rs Number::from_ratio -- CONTRACT PROVED IN UNIT values_num (restated: the clauses this unit needs)
    #[verifier::external_body]
    pub fn from_ratio(num: i64, den: i64) -> (r: Self)
        requires den != 0, num > i64::MIN, den > i64::MIN,
        ensures is_exact(r) ==> denom(r) > 0 && numer(r) * den == num * denom(r),
            -0x8000_0000 < num < 0x8000_0000 && -0x8000_0000 < den < 0x8000_0000 ==> is_exact(r),
    { unimplemented!() }
}
/// error!(SyntaxError::ExpectSomething("real number".to_string(), number_literal.clone()))  (X6)
#[verifier::external_body]
pub fn literal_error<T>() -> (r: Result<T>) ensures r is Err { unimplemented!() }

// ------------------------------------------------------------------------------------------
// Specification: the value a datum denotes (R7RS 4.1.2: (quote <datum>) evaluates to <datum>)
// ------------------------------------------------------------------------------------------
/*STRUCT_CLAUSE*/
/*CONST_CLAUSE*/
/// a ratio literal never has denominator 0 (proved for the lexer: unit lexer_pos, Lexer::number)
pub open spec fn wf_prim(p: Primitive) -> bool { p matches Primitive::Rational(_, b) ==> b != 0 }
pub open spec fn wf_datum(d: Datum) -> bool
    decreases d
{
    match d.data {
        DatumBody::Primitive(p) => wf_prim(p),
        DatumBody::Symbol(_) => true,
        DatumBody::Pair(l) => wf_list(*l),
        DatumBody::Vector(items) => forall|i: int| 0 <= i < items@.len() ==> wf_datum(#[trigger] items@[i]),
    }
}
pub open spec fn wf_list(l: DatumList) -> bool
    decreases l
{
    match l { GenericPair::Empty => true, GenericPair::Some(car, cdr) => wf_datum(car) && wf_datum(cdr) }
}
/// the datum contains a decimal literal (the only data whose value is not decided here: str::parse::<f64>)
pub open spec fn has_real(d: Datum) -> bool
    decreases d
{
    match d.data {
        DatumBody::Primitive(p) => p is Real,
        DatumBody::Symbol(_) => false,
        DatumBody::Pair(l) => list_has_real(*l),
        DatumBody::Vector(items) => exists|i: int| 0 <= i < items@.len() && has_real(#[trigger] items@[i]),
    }
}
pub open spec fn list_has_real(l: DatumList) -> bool
    decreases l
{
    match l { GenericPair::Empty => false, GenericPair::Some(car, cdr) => has_real(car) || has_real(cdr) }
}
/// the value of a literal token
pub open spec fn prim_lit<R: RealNumberInternalTrait>(p: Primitive, v: Value<R>) -> bool {
    match p {
        Primitive::Character(c) => v == Value::<R>::Character(c),
        Primitive::String(s) => v matches Value::String(t) && t@ == s@,
        Primitive::Boolean(b) => v == Value::<R>::Boolean(b),
        Primitive::Integer(a) => v == Value::<R>::Number(Number::Integer(a)),
        // a ratio literal a/b denotes the exact number a/b (in whatever terms), or -- only when b does not fit -- an inexact one
        Primitive::Rational(a, b) => v matches Value::Number(n) && (is_exact(n) ==> denom(n) > 0 && numer(n) * b == a * denom(n))
            && (a > -0x8000_0000 && b < 0x8000_0000 ==> is_exact(n)),
        // a decimal: an inexact number (which one is f64's FromStr + the conversion to R: not modelled)
        Primitive::Real(_) => v matches Value::Number(Number::Real(_)),
    }
}
/// v is the value the datum d denotes: same tree; a vector datum is a vector CONSTANT
pub open spec fn lit<R: RealNumberInternalTrait>(d: Datum, v: Value<R>) -> bool
    decreases d
{
    match d.data {
        DatumBody::Primitive(p) => struct_clause(prim_lit(p, v)),
        DatumBody::Symbol(s) => struct_clause(v matches Value::Symbol(t) && t@ == s@),
        DatumBody::Pair(l) => v matches Value::Pair(b) && list_lit(*l, *b),
        DatumBody::Vector(items) => v matches Value::Vector(r) && const_clause(!is_mutable_vec(r)) && vec_contents(r).len() == items@.len()
            && forall|i: int| 0 <= i < items@.len() ==> lit(#[trigger] items@[i], vec_contents(r)[i]),
    }
}
pub open spec fn list_lit<R: RealNumberInternalTrait>(l: DatumList, b: Pair<R>) -> bool
    decreases l
{
    match l {
        GenericPair::Empty => b is Empty,
        GenericPair::Some(car, cdr) => b matches GenericPair::Some(vcar, vcdr) && lit(car, vcar) && lit(cdr, vcdr),
    }
}
pub open spec fn lit_post<R: RealNumberInternalTrait>(d: Datum, r: Result<Value<R>>) -> bool {
    &&& r matches Ok(v) ==> lit(d, v)
    &&& !has_real(d) ==> r is Ok
}

// ---- the two traversals (generic code of pair.rs / std iterator adapters, through wrappers: rule X3s) ----
/// what map_ok_ref builds: the same pair structure, every element that is not itself a pair mapped by f
pub open spec fn mapped_list<R: RealNumberInternalTrait, F: Fn(&Datum) -> Result<Value<R>>>(l: DatumList, b: Pair<R>, f: F) -> bool
    decreases l
{
    match l {
        GenericPair::Empty => b is Empty,
        GenericPair::Some(car, cdr) => b matches GenericPair::Some(vcar, vcdr) && mapped_elem(car, vcar, f) && mapped_elem(cdr, vcdr, f),
    }
}
pub open spec fn mapped_elem<R: RealNumberInternalTrait, F: Fn(&Datum) -> Result<Value<R>>>(d: Datum, v: Value<R>, f: F) -> bool
    decreases d
{
    match d.data {
        DatumBody::Pair(p) => v matches Value::Pair(vb) && mapped_list(*p, *vb, f),
        _ => f.ensures((&d,), Ok::<Value<R>, SchemeError>(v)),
    }
}
/// pair.rs GenericPair::map_ok_ref(&mut f) -- ASSUMED (generic recursion over Pairable / Either, not under contract): f is
/// called on the elements that are not pairs (all of them parts of the list), nested pairs are rebuilt; the first Err wins
#[verifier::external_body]
pub fn pair_map_ok_ref<R: RealNumberInternalTrait, F: Fn(&Datum) -> Result<Value<R>>>(list: &DatumList, f: F) -> (r: Result<Pair<R>>)
    requires wf_list(*list), forall|x: Datum| wf_datum(x) ==> #[trigger] f.requires((&x,)),
    ensures r matches Ok(b) ==> mapped_list(*list, b, f),
        // (this clause FOLLOWS from the one above: lemma_mapped_is_lit, proved below; stated here so that the call site needs no name for f)
        (r matches Ok(b) && (forall|x: Datum, v: Value<R>| #[trigger] f.ensures((&x,), Ok::<Value<R>, SchemeError>(v)) ==> lit(x, v))) ==> list_lit(*list, r->Ok_0),
        (!list_has_real(*list) && (forall|x: Datum, o: Result<Value<R>>| !has_real(x) && #[trigger] f.ensures((&x,), o) ==> o is Ok)) ==> r is Ok,
{ unimplemented!() }
/// std `vec.iter().map(f).collect::<Result<_>>()` -- ASSUMED (std): f applied to the elements in order, the first Err wins
#[verifier::external_body]
pub fn datum_map_collect<R: RealNumberInternalTrait, F: Fn(&Datum) -> Result<Value<R>>>(items: &Vec<Datum>, f: F) -> (r: Result<Vec<Value<R>>>)
    requires forall|i: int| 0 <= i < items@.len() ==> #[trigger] f.requires((&items@[i],)),
    ensures r matches Ok(vs) ==> vs@.len() == items@.len() && forall|i: int| 0 <= i < items@.len() ==> f.ensures((&#[trigger] items@[i],), Ok::<Value<R>, SchemeError>(vs@[i])),
        (forall|i: int, o: Result<Value<R>>| 0 <= i < items@.len() && #[trigger] f.ensures((&items@[i],), o) ==> o is Ok) ==> r is Ok,
{ unimplemented!() }

/// map_ok_ref with a function that reads literals builds the literal list
pub proof fn lemma_mapped_is_lit<R: RealNumberInternalTrait, F: Fn(&Datum) -> Result<Value<R>>>(l: DatumList, b: Pair<R>, f: F)
    requires mapped_list(l, b, f), forall|x: Datum, v: Value<R>| #[trigger] f.ensures((&x,), Ok::<Value<R>, SchemeError>(v)) ==> lit(x, v),
    ensures list_lit(l, b),
    decreases l
{
    match l {
        GenericPair::Empty => {}
        GenericPair::Some(car, cdr) => {
            let vcar = b->Some_0;
            let vcdr = b->Some_1;
            lemma_mapped_elem_is_lit(car, vcar, f);
            lemma_mapped_elem_is_lit(cdr, vcdr, f);
        }
    }
}
pub proof fn lemma_mapped_elem_is_lit<R: RealNumberInternalTrait, F: Fn(&Datum) -> Result<Value<R>>>(d: Datum, v: Value<R>, f: F)
    requires mapped_elem(d, v, f), forall|x: Datum, w: Value<R>| #[trigger] f.ensures((&x,), Ok::<Value<R>, SchemeError>(w)) ==> lit(x, w),
    ensures lit(d, v),
    decreases d
{
    match d.data {
        DatumBody::Pair(p) => { lemma_mapped_is_lit(*p, *(v->Pair_0), f); }
        _ => {}
    }
}
'''

TYPE_ITEMS = list(_cmp.TYPE_ITEMS) + [
    {"kind": "type", "file": D, "name": "DatumList"},
    {"kind": "enum", "file": D, "name": "DatumBody"},
    {"kind": "type", "file": D, "name": "Datum"},
]

_CLOSURE = (r"|\2: &Datum| -> (o: Result<Value<R>>) requires wf_datum(*\2) ensures lit_post(*\2, o) { \\B }")

UNIT = {
    "props": ["C06"],
    "header": _cmp.UNIT.get("header", ""),
    "uses": _cmp.UNIT.get("uses", ""),
    "rlimit": 40,
    "trusted": dict(_cmp._tail.UNIT["trusted"], **{
        "new_immutable": "ValueReference::new_immutable: a literal (immutable) vector object holding the elements (units valref / valref_mut)",
        "new_mutable": "ValueReference::new_mutable (declared only)",
        "from_ratio": "CONTRACT PROVED IN UNIT values_num (restated)",
        "literal_error": "X6",
        "pair_map_ok_ref": "ASSUMED (pair.rs GenericPair::map_ok_ref, generic recursion: not under contract): maps the non-pair elements, keeps the pair structure",
        "datum_map_collect": "ASSUMED (std): slice.iter().map(f).collect::<Result<_>>() applies f in order and stops at the first Err",
    }),
    "prelude": PRELUDE.replace("/*STRUCT_CLAUSE*/", _STRUCT_ON).replace("/*CONST_CLAUSE*/", _CONST_OFF),
    "items": TYPE_ITEMS + [
        {"kind": "impl", "file": I, "impl": r"^impl<'a, R: RealNumberInternalTrait> Interpreter<'a, R>$",
         "methods": {
             "eval_primitive": {"props": ["C06", "C07"],
                 "sig_rewrites": [("S1", r"-> Result<Value<R>>$", "-> (r: Result<Value<R>>)")],
                 "rewrites": [("X6", r"error!\(SyntaxError::ExpectSomething\(\s*\"real number\"\.to_string\(\),\s*number_literal\.clone\(\),?\s*\)\)",
                               "literal_error()", 0, "S")],
                 "contract": """        requires wf_prim(*datum),
        ensures r matches Ok(v) ==> prim_lit(*datum, v),
            !(*datum is Real) ==> r is Ok,"""},
             "read_literal": {"props": ["C06", "C07"],
                 "attrs": "#[verifier::exec_allows_no_decreases_clause]",
                 "sig_rewrites": [("S1", r"-> Result<Value<R>>$", "-> (r: Result<Value<R>>)")],
                 # rule C1b: the closures' parameter names AND bodies are the real text; the contract is spliced onto their heads
                 "rewrites": [
                     ("C1b", r"(\w+)\s*\.iter\(\)\s*\.map\(\s*\|(\w+)\| ", r"datum_map_collect(\1, " + _CLOSURE + ")", 1, r"\s*\.collect::<Result<_>>\(\)"),
                     ("C1b", r"(\w+)\.map_ok_ref\(\s*&mut \|(\w+)\| ", r"pair_map_ok_ref(&**\1, " + _CLOSURE + ")", 1),
                 ],
                 "contract": """        requires wf_datum(*datum),
        ensures lit_post(*datum, r),"""},
         }},
    ],
    "spec": "",
}
