# C04 (pattern variables, _, literal identifiers, literal data): SyntaxPattern::match_datum itself.
# Real code under contract: src/parser/macros.rs  SyntaxPattern::match_datum
# Assumed / opaque: match_datum_stream (sub-lists, vectors, ellipsis: backtracking over HashMaps -- not under contract),
#   GenericPair::iter / last_cdr, the std hash collections (through wrappers, rule X3s).

M = "src/parser/macros.rs"
E = "src/error.rs"
D = "src/parser/datum.rs"
PR = "src/parser/pair.rs"

HEADER = "#![feature(allocator_api)]\n#![allow(unused_imports, dead_code, unused_variables)]"

PRELUDE = r'''
#[verifier::external_body] pub struct SchemeError { _p: () }
pub assume_specification<T: ?Sized, A: core::alloc::Allocator>[ <Box<T, A> as core::convert::AsRef<T>>::as_ref ](b: &Box<T, A>) -> (r: &T)
    ensures r == &**b;

// ---- the two hash collections of the matcher's signature: opaque here, with ghost views (rule X3s wrappers below) ----
#[verifier::external_body] pub struct LiteralSet { _p: () }                     // HashSet<String>
#[verifier::external_body] pub struct Substitutions { _p: () }                  // HashMap<String, (Datum, Vec<Datum>)>
pub uninterp spec fn is_literal(s: LiteralSet, name: Seq<char>) -> bool;
pub uninterp spec fn subst_view(s: Substitutions) -> Map<Seq<char>, (Datum, Seq<Datum>)>;
/// `pattern_literals.contains(x)`  (ASSUMED std: HashSet<String>::contains is membership of the text)
#[verifier::external_body]
pub fn std_set_contains(set: &LiteralSet, x: &String) -> (r: bool) ensures r == is_literal(*set, x@) { unimplemented!() }
/// `substitutions.insert(k, (d, Vec::new()))`  (ASSUMED std: HashMap::insert)
#[verifier::external_body]
pub fn std_map_insert(m: &mut Substitutions, k: String, v: (Datum, Vec<Datum>))
    ensures subst_view(*final(m)) == subst_view(*old(m)).insert(k@, (v.0, v.1@)) { unimplemented!() }

impl Clone for Located<DatumBody> {
    /// derive(Clone): structural (trusted)
    #[verifier::external_body] fn clone(&self) -> (r: Self) ensures r == *self { unimplemented!() }
}
/// derive(PartialEq) on Primitive: structural equality (trusted)
impl PartialEq for Primitive {
    #[verifier::external_body] fn eq(&self, other: &Self) -> (r: bool) { unimplemented!() }
}
impl vstd::std_specs::cmp::PartialEqSpecImpl<Primitive> for Primitive {
    open spec fn obeys_eq_spec() -> bool { true }
    open spec fn eq_spec(&self, other: &Primitive) -> bool { prim_eq(*self, *other) }
}
/// equality of literal data, spelled out (texts of strings / reals compared as texts)
pub open spec fn prim_eq(a: Primitive, b: Primitive) -> bool {
    match (a, b) {
        (Primitive::String(x), Primitive::String(y)) => x@ == y@,
        (Primitive::Character(x), Primitive::Character(y)) => x == y,
        (Primitive::Boolean(x), Primitive::Boolean(y)) => x == y,
        (Primitive::Integer(x), Primitive::Integer(y)) => x == y,
        (Primitive::Rational(x1, x2), Primitive::Rational(y1, y2)) => x1 == y1 && x2 == y2,
        (Primitive::Real(x), Primitive::Real(y)) => x@ == y@,
        _ => false,
    }
}
/// `a == b` on Strings  (ASSUMED std: equality of the texts), through a wrapper (rule X3s)
#[verifier::external_body]
pub fn std_string_eq(a: &String, b: &String) -> (r: bool) ensures r == (a@ == b@) { unimplemented!() }

// ---- sub-lists, vectors, ellipsis: the stream matcher is NOT under contract (an uninterpreted relation) ----
pub uninterp spec fn stream_rel(patterns: Seq<SyntaxPattern>, datums: Seq<Datum>, lits: LiteralSet, s0: Substitutions, s1: Substitutions,
                                r: Result<bool, SchemeError>) -> bool;
pub uninterp spec fn pair_items<T>(p: GenericPair<T>) -> Seq<T>;
pub uninterp spec fn pair_last_cdr<T>(p: GenericPair<T>) -> Option<T>;
impl<T> GenericPair<T> {
    #[verifier::external_body]
    pub fn last_cdr(&self) -> (r: Option<&T>)
        ensures match r { Some(x) => pair_last_cdr(*self) == Some(*x), None => pair_last_cdr(*self) is None } { unimplemented!() }
}
/// rule X3s: `pair.iter().cloned().collect()` (the elements of a list as a Vec) through a wrapper
#[verifier::external_body]
pub fn pair_to_vec<T>(p: &GenericPair<T>) -> (r: Vec<T>) ensures r@ == pair_items(*p) { unimplemented!() }
impl Located<SyntaxPatternBody> {
    #[verifier::external_body]
    pub fn match_datum_stream(pattern_index: usize, datum_index: usize, depth: usize, patterns: &Vec<SyntaxPattern>, datums: &Vec<Datum>,
                              pattern_literals: &LiteralSet, substitutions: &mut Substitutions, multi_matches: Option<SyntaxPattern>)
        -> (r: Result<bool, SchemeError>)
        ensures stream_rel(patterns@, datums@, *pattern_literals, *old(substitutions), *final(substitutions), r)
    { unimplemented!() }
}

/// nesting height of a pattern (a finite tree).  `depth` only counts nesting levels (for a debug print that is commented
/// out); that `depth + 1` cannot overflow needs the ASSUMPTION that patterns nest fewer than 2^64 levels:
pub uninterp spec fn nest(p: SyntaxPattern) -> nat;
#[verifier::external_body]
pub proof fn axiom_nesting(p: SyntaxPattern)
    ensures
        (p.data is Pair || p.data is Vector) ==> nest(p) >= 1,
        p.data matches SyntaxPatternBody::Pair(b) ==> (forall|x: SyntaxPattern| pair_last_cdr(*b) == Some(x) ==> nest(x) < nest(p)),
{}

// ------------------------------------------------------------------------------------------
// Specification (from the statement of C04)
// ------------------------------------------------------------------------------------------
/// what match_datum(pattern, datum) may return, and what it does to the table of bindings, on every pattern that is not
/// a sub-list or a vector (those delegate to the stream matcher)
pub open spec fn match_post(p: SyntaxPattern, d: Datum, lits: LiteralSet, s0: Substitutions, s1: Substitutions, r: Result<bool, SchemeError>) -> bool {
    match (p.data, d.data) {
        // _ (and the ellipsis mark itself) match any form and bind nothing
        (SyntaxPatternBody::Underscore, _) => r == Ok::<bool, SchemeError>(true) && subst_view(s1) == subst_view(s0),
        (SyntaxPatternBody::Ellipsis, _) => r == Ok::<bool, SchemeError>(true) && subst_view(s1) == subst_view(s0),
        (SyntaxPatternBody::Pair(_), DatumBody::Pair(_)) => true,
        (SyntaxPatternBody::Vector(_), DatumBody::Vector(_)) => true,
        (SyntaxPatternBody::Identifier(name), body) =>
            if is_literal(lits, name@) {
                // a literal identifier matches only itself, and binds nothing
                r == Ok::<bool, SchemeError>(body matches DatumBody::Symbol(s) && s@ == name@) && subst_view(s1) == subst_view(s0)
            } else {
                // a pattern variable matches any form and is bound to it
                r == Ok::<bool, SchemeError>(true) && subst_view(s1) == subst_view(s0).insert(name@, (d, Seq::<Datum>::empty()))
            },
        // literal data match only equal data
        (SyntaxPatternBody::Primitive(a), DatumBody::Primitive(b)) => r == Ok::<bool, SchemeError>(prim_eq(a, b)) && subst_view(s1) == subst_view(s0),
        // everything else does not match
        _ => r == Ok::<bool, SchemeError>(false) && subst_view(s1) == subst_view(s0),
    }
}
'''

UNIT = {
    "props": ["C04"],
    "header": HEADER,
    "uses": "use std::collections::{HashMap, HashSet};",
    "rlimit": 40,
    "trusted": {
        "SchemeError": "opaque type (X2)", "as_ref": "std Box::as_ref is the dereference",
        "LiteralSet": "opaque: HashSet<String> (rule X2)", "Substitutions": "opaque: HashMap<String, (Datum, Vec<Datum>)> (rule X2)",
        "std_set_contains": "ASSUMED (std): HashSet<String>::contains", "std_map_insert": "ASSUMED (std): HashMap::insert",
        "clone": "derive(Clone): structural (trusted)", "eq": "derive(PartialEq) on Primitive: structural (trusted)",
        "std_string_eq": "ASSUMED (std): String == String compares the texts",
        "last_cdr": "pair.rs GenericPair::last_cdr: uninterpreted (not under contract)",
        "pair_to_vec": "X3s: pair.iter().cloned().collect()",
        "axiom_nesting": "ASSUMED: patterns are finite trees nesting fewer than 2^64 levels (only for `depth + 1`)",
        "match_datum_stream": "NOT UNDER CONTRACT: the stream matcher (sub-lists, vectors, ellipsis) is an uninterpreted relation",
    },
    "prelude": PRELUDE,
    "items": [
        {"kind": "struct", "file": E, "name": "Located"},
        {"kind": "enum", "file": D, "name": "Primitive"},
        {"kind": "enum", "file": PR, "name": "GenericPair"},
        {"kind": "type", "file": D, "name": "DatumList"},
        {"kind": "enum", "file": D, "name": "DatumBody"},
        {"kind": "type", "file": D, "name": "Datum"},
        {"kind": "enum", "file": M, "name": "SyntaxPatternBody"},
        {"kind": "type", "file": M, "name": "SyntaxPattern"},
        {"kind": "impl", "file": M, "impl": r"^impl SyntaxPattern$",
         "header_rewrites": [("X2", r"impl SyntaxPattern", "impl Located<SyntaxPatternBody>")],
         "methods": {"match_datum": {"props": ["C04", "C07"],
             "attrs": "#[verifier::exec_allows_no_decreases_clause]",
             "sig_rewrites": [("X2", r"pattern_literals: &HashSet<String>,", "pattern_literals: &LiteralSet,", 1),
                              ("X2", r"substitutions: &mut HashMap<String, \(Datum, Vec<Datum>\)>,", "substitutions: &mut Substitutions,", 1),
                              ("S1", r"-> Result<bool, SchemeError>$", "-> (r: Result<bool, SchemeError>)")],
             "rewrites": [
                 ("X3s", r"&pattern_pair\.iter\(\)\.cloned\(\)\.collect\(\)", "&pair_to_vec(pattern_pair)", 1),
                 ("X3s", r"&datum_pair\.iter\(\)\.cloned\(\)\.collect\(\)", "&pair_to_vec(datum_pair)", 1),
                 # the argument of `contains` and the operands of the symbol comparison are the real text (captured)
                 ("X3s", r"pattern_literals\.contains\(([^()]*)\)", r"std_set_contains(pattern_literals, \1)", 1),
                 ("X3s", r"substitutions\.insert\(([^;]*)\);", r"std_map_insert(substitutions, \1);", 1),
                 ("X3s", r"if (\w+) == (\w+) \)", r"if std_string_eq(\1, \2) )", 0),
                 # X12: `matches!(&X, &PAT if G)` -> `matches!(X, PAT if G)` (Verus: "ref patterns"; the pattern's & cancels the borrow)
                 ("X12", r"matches!\(&datum_body,\s*&DatumBody::Symbol", "matches!(datum_body, DatumBody::Symbol", 0, "S"),
             ],
             "inserts": [(r"let result = match \(&self\.data, &datum\.data\) \{", "        proof { axiom_nesting(*self); }", None, "before")],
             "contract": """        requires depth + nest(*self) < usize::MAX,
        ensures match_post(*self, *datum, *pattern_literals, *old(substitutions), *final(substitutions), r),"""}}},
    ],
    "spec": "",
}
