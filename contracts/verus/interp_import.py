# C12 / C14: Interpreter::eval_import_set -- the import-set algebra (only / except / prefix / rename) and the in-progress set
# that detects cyclic imports.
# Real code under contract: src/interpreter/interpreter.rs  Interpreter::eval_import_set;  src/error.rs Located::extract_data
# Opaque / assumed: Interpreter::get_library (file loading, parsing and evaluation of a library body: its effect on the
#   in-progress set is ASSUMED to be the one proved here for eval_import_set -- induction on the nesting depth of imports),
#   Library::iter_definitions, the std iterator adapters (through wrappers, rule X3s), HashSet<LibraryName> (vstd model).

I = "src/interpreter/interpreter.rs"
P = "src/parser/parser.rs"
E = "src/error.rs"

HEADER = "#![feature(allocator_api)]\n#![allow(unused_imports, dead_code, unused_variables)]"

PRELUDE_T = r'''
pub trait RealNumberInternalTrait: Sized {}
pub assume_specification<T: ?Sized, A: core::alloc::Allocator>[ <Box<T, A> as core::convert::AsRef<T>>::as_ref ](b: &Box<T, A>) -> (r: &T)
    ensures r == &**b;
#[verifier::external_body] #[verifier::reject_recursive_types(R)]
pub struct Value<R: RealNumberInternalTrait> { _p: core::marker::PhantomData<R> }       // only passed around (X2)
#[verifier::external_body] #[verifier::reject_recursive_types(R)]
pub struct Library<R: RealNumberInternalTrait> { _p: core::marker::PhantomData<R> }     // library::Library (X2)
#[verifier::external_body] pub struct SchemeError { _p: () }
pub type Result<T> = core::result::Result<T, SchemeError>;
pub type Binding<R> = (String, Value<R>);

/// derive(Hash, PartialEq, Eq) on LibraryName / LibraryNameElement (X1 drops derives; re-declared, bodies trusted):
/// ASSUMED lawful, i.e. LibraryName is a valid key of std's HashSet
impl core::hash::Hash for LibraryName {
    #[verifier::external_body] fn hash<H: core::hash::Hasher>(&self, state: &mut H) { unimplemented!() }
}
impl PartialEq for LibraryName {
    #[verifier::external_body] fn eq(&self, other: &Self) -> bool { unimplemented!() }
}
impl Eq for LibraryName {}
#[verifier::external_body]
pub proof fn axiom_library_name_is_a_key()
    ensures vstd::std_specs::hash::obeys_key_model::<LibraryName>(),
{}
impl<T: Clone> Clone for Located<T> {
    /// derive(Clone): structural (trusted)
    #[verifier::external_body] fn clone(&self) -> (r: Self) ensures r == *self { unimplemented!() }
}
impl Clone for LibraryName {
    #[verifier::external_body] fn clone(&self) -> (r: Self) ensures r == *self { unimplemented!() }
}

// ---- loading a library ----
/// `get_library(name)` may return lr  (uninterpreted RELATION: loading reads files and evaluates the library's body)
pub uninterp spec fn load_rel<R: RealNumberInternalTrait>(name: LibraryName, lr: Result<Library<R>>) -> bool;
/// the (external name, value) pairs a library exports, in the order iter_definitions yields them
pub uninterp spec fn exports_of<R: RealNumberInternalTrait>(l: Library<R>) -> Seq<Binding<R>>;
pub uninterp spec fn is_cyclic_import(e: SchemeError) -> bool;
pub uninterp spec fn err_location(e: SchemeError) -> Option<[u32; 2]>;

impl<'a, R: RealNumberInternalTrait> Interpreter<'a, R> {
    /// interpreter.rs get_library.  ASSUMED: whatever it loads (recursively importing through eval_import_set), it leaves
    /// the in-progress set as it found it -- the statement proved below for eval_import_set itself (induction on nesting).
    #[verifier::external_body]
    pub fn get_library(&mut self, name: Located<LibraryName>) -> (r: Result<Library<R>>)
        ensures final(self).imported_library@ == old(self).imported_library@, load_rel(name.data, r),
    { unimplemented!() }
}
/// rule X3s: `library.iter_definitions().map(|(name, value)| (name.clone(), value.clone())).collect()` through a wrapper
#[verifier::external_body]
pub fn library_exports<R: RealNumberInternalTrait>(library: &Library<R>) -> (r: Vec<Binding<R>>)
    ensures r@ == exports_of(*library),
{ unimplemented!() }
/// located_error!(LogicError::LibraryImportCyclic(..), loc)   (X6)
#[verifier::external_body]
pub fn cyclic_import_at<T>(loc: Option<[u32; 2]>) -> (r: Result<T>)
    ensures r is Err, is_cyclic_import(r->Err_0), err_location(r->Err_0) == loc { unimplemented!() }

// ---- std collections / iterator adapters through wrappers (rule X3s): ASSUMED std contracts ----
/// `identifiers.iter().collect::<HashSet<_>>()`: the set of the listed names
#[verifier::external_body] pub struct NameSet<'a> { _p: core::marker::PhantomData<&'a String> }     // HashSet<&String>
pub uninterp spec fn name_set_has(s: NameSet<'_>, n: Seq<char>) -> bool;
#[verifier::external_body]
pub fn std_collect_name_set<'a>(identifiers: &'a Vec<String>) -> (r: NameSet<'a>)
    ensures forall|n: Seq<char>| #[trigger] name_set_has(r, n) <==> listed(identifiers@, n),
{ unimplemented!() }
impl<'a> NameSet<'a> {
    #[verifier::external_body]
    pub fn contains(&self, name: &String) -> (r: bool) ensures r == name_set_has(*self, name@) { unimplemented!() }
}
/// `renames.iter().map(|(from, to)| (from, to)).collect::<HashMap<_, _>>()`: for each name the LAST pair that renames it
#[verifier::external_body] pub struct RenameMap<'a> { _p: core::marker::PhantomData<&'a String> }   // HashMap<&String, &String>
pub uninterp spec fn rename_view(m: RenameMap<'_>) -> Map<Seq<char>, Seq<char>>;
pub open spec fn last_rename(renames: Seq<(String, String)>, name: Seq<char>, upto: int) -> Option<Seq<char>>
    decreases upto
{
    if upto <= 0 { None }
    else if renames[upto - 1].0@ == name { Some(renames[upto - 1].1@) }
    else { last_rename(renames, name, upto - 1) }
}
#[verifier::external_body]
pub fn std_collect_rename_map<'a>(renames: &'a Vec<(String, String)>) -> (r: RenameMap<'a>)
    ensures forall|n: Seq<char>| (#[trigger] rename_view(r).dom().contains(n) <==> last_rename(renames@, n, renames@.len() as int) is Some)
        && (rename_view(r).dom().contains(n) ==> Some(rename_view(r)[n]) == last_rename(renames@, n, renames@.len() as int)),
{ unimplemented!() }
impl<'a> RenameMap<'a> {
    #[verifier::external_body]
    pub fn get(&self, name: &String) -> (r: Option<&&'a String>)
        ensures match r { Some(to) => rename_view(*self).dom().contains(name@) && (**to)@ == rename_view(*self)[name@],
                          None => !rename_view(*self).dom().contains(name@) }
    { unimplemented!() }
}
/// `v.into_iter().filter(f).collect()`: the elements f keeps, in order.  `keep` is the ghost meaning of f.
#[verifier::external_body]
pub fn std_filter_collect<T, F: Fn(&T) -> bool>(v: Vec<T>, f: F, Ghost(keep): Ghost<spec_fn(T) -> bool>) -> (r: Vec<T>)
    requires forall|x: T| #[trigger] f.requires((&x,)), forall|x: T, b: bool| #[trigger] f.ensures((&x,), b) ==> b == keep(x),
    ensures r@ == v@.filter(keep),
{ unimplemented!() }
/// `v.into_iter().map(f).collect()`: f applied to every element, in order.  `rel` is the ghost meaning of f.
#[verifier::external_body]
pub fn std_map_collect<T, F: Fn(T) -> T>(v: Vec<T>, f: F, Ghost(rel): Ghost<spec_fn(T, T) -> bool>) -> (r: Vec<T>)
    requires forall|x: T| #[trigger] f.requires((x,)), forall|x: T, y: T| #[trigger] f.ensures((x,), y) ==> rel(x, y),
    ensures r@.len() == v@.len(), forall|i: int| 0 <= i < v@.len() ==> rel(v@[i], #[trigger] r@[i]),
{ unimplemented!() }
/// the same adapters with nothing said about their result (unit interp_import_cycle: the algebra is not its business)
#[verifier::external_body]
pub fn std_filter_collect_u<T, F: Fn(&T) -> bool>(v: Vec<T>, f: F) -> (r: Vec<T>)
    requires forall|x: T| #[trigger] f.requires((&x,)),
{ unimplemented!() }
#[verifier::external_body]
pub fn std_map_collect_u<T, F: Fn(T) -> T>(v: Vec<T>, f: F) -> (r: Vec<T>)
    requires forall|x: T| #[trigger] f.requires((x,)),
{ unimplemented!() }
/// `format!("{}{}", a, b)`   (X6-style: the two strings concatenated, in the order written)
pub trait Txt { spec fn txt(&self) -> Seq<char>; }
impl Txt for String { open spec fn txt(&self) -> Seq<char> { self@ } }
impl<'a> Txt for &'a String { open spec fn txt(&self) -> Seq<char> { (**self)@ } }
#[verifier::external_body]
pub fn std_concat<A: Txt, B: Txt>(a: A, b: B) -> (r: String) ensures r@ == a.txt() + b.txt() { unimplemented!() }

// ------------------------------------------------------------------------------------------
// Specification (from the statements of C12 and C14)
// ------------------------------------------------------------------------------------------
/// the name n (as text) is one of the listed identifiers
pub open spec fn listed(ids: Seq<String>, n: Seq<char>) -> bool {
    exists|i: int| 0 <= i < ids.len() && #[trigger] ids[i]@ == n
}
pub open spec fn renamed(renames: Seq<(String, String)>, name: Seq<char>) -> Seq<char> {
    match last_rename(renames, name, renames.len() as int) { Some(to) => to, None => name }
}
/// the names (as text) and values of a binding list
pub open spec fn name_of<R: RealNumberInternalTrait>(b: Binding<R>) -> Seq<char> { b.0@ }
/// same values, in the same order, under the names given by `f`
pub open spec fn renames_to<R: RealNumberInternalTrait>(inner: Seq<Binding<R>>, out: Seq<Binding<R>>, f: spec_fn(Seq<char>) -> Seq<char>) -> bool {
    out.len() == inner.len() && forall|i: int| #![trigger out[i]] 0 <= i < inner.len() ==> out[i].1 == inner[i].1 && out[i].0@ == f(inner[i].0@)
}
/*CLAUSES*/
// trigger carrier for the result of the inner import set (see interp_eval: a trigger on the recursive relation never matches)
pub open spec fn obs<R: RealNumberInternalTrait>(i: ImportSet, ir: Result<Vec<Binding<R>>>) -> bool { true }

/// C12 / C14: what eval_import_set(import) may return when `inprog` is the set of libraries whose import is in progress
pub open spec fn import_sem<R: RealNumberInternalTrait>(import: ImportSet, inprog: Set<LibraryName>, r: Result<Vec<Binding<R>>>) -> bool
    decreases import
{
    match import.data {
        // C14: a library already being imported is the cyclic-import error (located at the name); otherwise the outcome
        // is that of loading it: its error, or exactly its exports
        ImportSetBody::Direct(name) =>
            if inprog.contains(name.data) { cyclic_clause(r, name.location) }
            else { exists|lr: Result<Library<R>>| #[trigger] load_rel(name.data, lr) && match lr {
                       Ok(l) => r matches Ok(v) && v@ == exports_of(l),
                       Err(e) => r == Err::<Vec<Binding<R>>, SchemeError>(e) } },
        // C12: only keeps exactly the listed names ...
        ImportSetBody::Only(inner, ids) => exists|ir: Result<Vec<Binding<R>>>| #[trigger] obs(*inner, ir) && import_sem(*inner, inprog, ir) && match ir {
            Err(e) => r == Err::<Vec<Binding<R>>, SchemeError>(e),
            Ok(v) => r matches Ok(w) && only_clause(v@, w@, ids@) },
        // ... except drops exactly the listed names ...
        ImportSetBody::Except(inner, ids) => exists|ir: Result<Vec<Binding<R>>>| #[trigger] obs(*inner, ir) && import_sem(*inner, inprog, ir) && match ir {
            Err(e) => r == Err::<Vec<Binding<R>>, SchemeError>(e),
            Ok(v) => r matches Ok(w) && except_clause(v@, w@, ids@) },
        // ... prefix puts the prefix in front of every name ...
        ImportSetBody::Prefix(inner, prefix) => exists|ir: Result<Vec<Binding<R>>>| #[trigger] obs(*inner, ir) && import_sem(*inner, inprog, ir) && match ir {
            Err(e) => r == Err::<Vec<Binding<R>>, SchemeError>(e),
            Ok(v) => r matches Ok(w) && prefix_clause(v@, w@, prefix@) },
        // ... rename replaces the listed names and leaves the others
        ImportSetBody::Rename(inner, renames) => exists|ir: Result<Vec<Binding<R>>>| #[trigger] obs(*inner, ir) && import_sem(*inner, inprog, ir) && match ir {
            Err(e) => r == Err::<Vec<Binding<R>>, SchemeError>(e),
            Ok(v) => r matches Ok(w) && rename_clause(v@, w@, renames@) },
    }
}
pub open spec fn imports<R: RealNumberInternalTrait>(import: ImportSet, inprog: Set<LibraryName>, r: Result<Vec<Binding<R>>>) -> bool {
    obs(import, r) && import_sem(import, inprog, r)
}
'''

CLAUSES_C12 = r"""
// unit interp_import (C12) decides the ALGEBRA; the cycle detector (in-progress set) is unit interp_import_cycle (C14)
pub open spec fn frame_clause(before: Set<LibraryName>, after: Set<LibraryName>) -> bool { true }
pub open spec fn cyclic_clause<T>(r: Result<T>, loc: Option<[u32; 2]>) -> bool { true }
pub open spec fn only_clause<R: RealNumberInternalTrait>(v: Seq<Binding<R>>, w: Seq<Binding<R>>, ids: Seq<String>) -> bool {
    w == v.filter(|b: Binding<R>| listed(ids, b.0@))
}
pub open spec fn except_clause<R: RealNumberInternalTrait>(v: Seq<Binding<R>>, w: Seq<Binding<R>>, ids: Seq<String>) -> bool {
    w == v.filter(|b: Binding<R>| !listed(ids, b.0@))
}
pub open spec fn prefix_clause<R: RealNumberInternalTrait>(v: Seq<Binding<R>>, w: Seq<Binding<R>>, prefix: Seq<char>) -> bool {
    renames_to(v, w, |n: Seq<char>| prefix + n)
}
pub open spec fn rename_clause<R: RealNumberInternalTrait>(v: Seq<Binding<R>>, w: Seq<Binding<R>>, renames: Seq<(String, String)>) -> bool {
    renames_to(v, w, |n: Seq<char>| renamed(renames, n))
}
"""
CLAUSES_C14 = r"""
// unit interp_import_cycle (C14) decides the CYCLE DETECTOR; which bindings an import set yields is unit interp_import (C12)
pub open spec fn frame_clause(before: Set<LibraryName>, after: Set<LibraryName>) -> bool { after =~= before }
pub open spec fn cyclic_clause<T>(r: Result<T>, loc: Option<[u32; 2]>) -> bool {
    r is Err && is_cyclic_import(r->Err_0) && err_location(r->Err_0) == loc
}
pub open spec fn only_clause<R: RealNumberInternalTrait>(v: Seq<Binding<R>>, w: Seq<Binding<R>>, ids: Seq<String>) -> bool { true }
pub open spec fn except_clause<R: RealNumberInternalTrait>(v: Seq<Binding<R>>, w: Seq<Binding<R>>, ids: Seq<String>) -> bool { true }
pub open spec fn prefix_clause<R: RealNumberInternalTrait>(v: Seq<Binding<R>>, w: Seq<Binding<R>>, prefix: Seq<char>) -> bool { true }
pub open spec fn rename_clause<R: RealNumberInternalTrait>(v: Seq<Binding<R>>, w: Seq<Binding<R>>, renames: Seq<(String, String)>) -> bool { true }
"""
PRELUDE = PRELUDE_T.replace("/*CLAUSES*/", CLAUSES_C12)
PRELUDE_CYCLE = PRELUDE_T.replace("/*CLAUSES*/", CLAUSES_C14)

UNIT = {
    "props": ["C12"],
    "header": HEADER,
    "uses": "use std::rc::Rc;\nuse std::marker::PhantomData;\nuse std::collections::HashSet;",
    "rlimit": 40,
    "trusted": {
        "as_ref": "std Box::as_ref is the dereference",
        "Value": "opaque type (X2)", "Library": "opaque type (X2)", "SchemeError": "opaque type (X2)",
        "hash": "derive(Hash) on LibraryName (trusted lawful)", "eq": "derive(PartialEq) on LibraryName (trusted lawful)",
        "axiom_library_name_is_a_key": "ASSUMED: derive(Hash, Eq) make LibraryName a valid HashSet key (vstd obeys_key_model)",
        "clone": "derive(Clone): structural (trusted)",
        "get_library": "ASSUMED (induction on the nesting depth of imports): loading a library leaves the in-progress set as found",
        "library_exports": "X3s: Library::iter_definitions().map(clone).collect() through a wrapper",
        "cyclic_import_at": "X6",
        "NameSet": "opaque: HashSet<&String>", "std_collect_name_set": "ASSUMED (std): collecting names into a HashSet",
        "contains": "ASSUMED (std): HashSet::contains",
        "RenameMap": "opaque: HashMap<&String,&String>", "std_collect_rename_map": "ASSUMED (std): collecting pairs into a HashMap (the last pair for a key wins)",
        "get": "ASSUMED (std): HashMap::get",
        "std_filter_collect": "ASSUMED (std): into_iter().filter(f).collect()", "std_map_collect": "ASSUMED (std): into_iter().map(f).collect()",
        "std_filter_collect_u": "std adapter, no contract", "std_map_collect_u": "std adapter, no contract",
        "std_concat": "X6: format!(\"{}{}\", a, b) is the concatenation",
    },
    "prelude": PRELUDE,
    "items": [
        {"kind": "struct", "file": E, "name": "Located",
         # rule X15 (below) mirrors this impl
         "require_source": [r"impl<T> Deref for Located<T> \{\s*type Target = T;\s*fn deref\(&self\) -> &Self::Target \{\s*&self\.data\s*\}"]},
        {"kind": "impl", "file": E, "impl": r"^impl<T> Located<T>$",
         "methods": {"extract_data": {"props": ["C12", "C07"],
             "sig_rewrites": [("S1", r"-> T$", "-> (r: T)")],
             "contract": "        ensures r == self.data,"}}},
        {"kind": "enum", "file": P, "name": "LibraryNameElement"},
        {"kind": "struct", "file": P, "name": "LibraryName"},
        {"kind": "type", "file": P, "name": "ImportSet"},
        {"kind": "enum", "file": P, "name": "ImportSetBody"},
        # rule X14: fields of Interpreter that eval_import_set does not touch are dropped (their types are outside Verus)
        {"kind": "struct", "file": I, "name": "Interpreter", "attrs": "#[verifier::reject_recursive_types(R)]",
         "rewrites": [("X14", r"pub env: Rc<Environment<R>>,\s*lib_loader: LibraryLoader<'a, R>,", "", 1, "S"),
                      ("X14", r"import_end: bool,[^\n]*\n\s*pub program_directory: Option<PathBuf>,", "", 1, "S"),
                      ("X14", r"(?://[^\n]*\n\s*)?lib_instances: HashMap<LibraryName, Library<R>>,", "", 0, "S"),
                      ("X14", r"_marker: PhantomData<R>,", "_marker: PhantomData<&'a R>,", 1)]},
        {"kind": "impl", "file": I, "impl": r"^impl<'a, R: RealNumberInternalTrait> Interpreter<'a, R>$",
         "methods": {"eval_import_set": {"props": ["C12", "C07"],
             "attrs": "#[verifier::exec_allows_no_decreases_clause]",
             "sig_rewrites": [("S1", r"-> Result<Vec<\(String, Value<R>\)>>$", "-> (r: Result<Vec<(String, Value<R>)>>)")],
             "rewrites": [
                 # X15: `&Located<T>` used where `&T` is expected goes through `Deref for Located<T>` (= `&self.data`, checked above)
                 ("X15", r"self\.imported_library\.remove\(lib_name\)", "self.imported_library.remove(&lib_name.data)", 0),
                 ("X6", r"located_error!\(\s*LogicError::LibraryImportCyclic\(lib_name\.clone\(\)\.extract_data\(\)\),\s*lib_name\.location\s*\)",
                  "cyclic_import_at(lib_name.location)", 1, "S"),
                 ("X3s", r"library\s*\.iter_definitions\(\)\s*\.map\(\|\(name, value\)\| \(name\.clone\(\), value\.clone\(\)\)\)\s*\.collect\(\)",
                  "library_exports(&library)", 1, "S"),
                 ("X3s", r"identifiers\.iter\(\)\.collect::<HashSet<_>>\(\)", "std_collect_name_set(identifiers)", 2),
                 ("X3s", r"renames\s*\.iter\(\)\s*\.map\(\|\(from, to\)\| \(from, to\)\)\s*\.collect::<HashMap<_, _>>\(\)",
                  "std_collect_rename_map(renames)", 1, "S"),
                 # C1: closures get typed heads and contracts, their BODIES are the real text (captured); the adapters are called
                 # through the wrappers above.  The enclosing arm is part of the anchor (only / except use the same adapter).
                 ("X6", r"format!\(\"\{\}\{\}\", &?(\w+), &?(\w+)\)", r"std_concat(\1, \2)", 1),
                 ("X3s", r"(ImportSetBody::Only\(import_set, identifiers\) => \{\s*let \w+ = [^;]*;\s*)Ok\(((?:[^;()]|\((?:[^()]|\([^()]*\))*\))+?)\s*\.into_iter\(\)\s*\.filter\(\|\(name, _\)\| ([^\n]+?)\)\s*\.collect\(\)\)",
                  r"\1Ok(std_filter_collect(\2, "
                  r"|b: &(String, Value<R>)| -> (k: bool) ensures k == listed(identifiers@, b.0@) { let (name, _x) = b; \3 }, "
                  r"Ghost(|b: (String, Value<R>)| listed(identifiers@, b.0@))))", 1, "S"),
                 ("X3s", r"(ImportSetBody::Except\(import_set, identifiers\) => \{\s*let \w+ = [^;]*;\s*)Ok\(((?:[^;()]|\((?:[^()]|\([^()]*\))*\))+?)\s*\.into_iter\(\)\s*\.filter\(\|\(name, _\)\| ([^\n]+?)\)\s*\.collect\(\)\)",
                  r"\1Ok(std_filter_collect(\2, "
                  r"|b: &(String, Value<R>)| -> (k: bool) ensures k == !listed(identifiers@, b.0@) { let (name, _x) = b; \3 }, "
                  r"Ghost(|b: (String, Value<R>)| !listed(identifiers@, b.0@))))", 1, "S"),
                 ("X3s", r"(ImportSetBody::Prefix\(import_set, prefix\) => (?:\{[^{}]*?)?)Ok\(((?:[^;()]|\((?:[^()]|\([^()]*\))*\))+?)\s*\.into_iter\(\)\s*\.map\(\|\(name, value\)\| ([^\n]+?)\)\s*\.collect\(\)\)",
                  r"\1Ok(std_map_collect(\2, "
                  r"|b: (String, Value<R>)| -> (o: (String, Value<R>)) ensures o.1 == b.1 && o.0@ == prefix@ + b.0@ "
                  r"{ let (name, value) = b; \3 }, "
                  r"Ghost(|b: (String, Value<R>), o: (String, Value<R>)| o.1 == b.1 && o.0@ == prefix@ + b.0@)))", 1, "S"),
                 ("X3s", r"(ImportSetBody::Rename\(import_set, renames\) => \{\s*let \w+ = [^;]*;\s*)Ok\(((?:[^;()]|\((?:[^()]|\([^()]*\))*\))+?)\s*\.into_iter\(\)\s*\.map\(\|\(name, value\)\| (match \w+\.get\(&name\) \{.*?\n\s*\})\)\s*\.collect\(\)\)",
                  r"\1Ok(std_map_collect(\2, "
                  r"|b: (String, Value<R>)| -> (o: (String, Value<R>)) ensures o.1 == b.1 && o.0@ == renamed(renames@, b.0@) "
                  r"{ let (name, value) = b; \3 }, "
                  r"Ghost(|b: (String, Value<R>), o: (String, Value<R>)| o.1 == b.1 && o.0@ == renamed(renames@, b.0@))))", 1, "S"),
             ],
             "inserts": [(r"match &import\.data \{", """        broadcast use vstd::std_specs::hash::group_hash_axioms;
        proof { axiom_library_name_is_a_key(); }""", None, "before")],
             "contract": """        ensures
            // C14: the in-progress set is restored on EVERY exit (so an import that failed leaves no trace)
            frame_clause(old(self).imported_library@, final(self).imported_library@),
            // C12 / C14: the algebra, and the cyclic-import error exactly for a library already in progress
            imports(*import, old(self).imported_library@, r),"""}}},
    ],
    "spec": "",
}
