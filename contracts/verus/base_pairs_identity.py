# C03 (vector half): the vector builtins of base.rs -- vector, make-vector, vector-length, vector-ref, vector-set! -- against
# the ghost contents of the shared cell.  Same extraction as unit base_pairs, restricted to these functions, with the clause
# about WHAT vector-set! stores WHERE switched on (in base_pairs, which serves C08 / C07 / C09, it is switched off).
import copy
import importlib.util as _u
import os as _os

_spec = _u.spec_from_file_location("base_pairs_for_identity", _os.path.join(_os.path.dirname(__file__), "base_pairs.py"))
_full = _u.module_from_spec(_spec)
_spec.loader.exec_module(_full)

_KEEP_FNS = {"vector", "make_vector", "vector_length", "vector_ref", "vector_set"}
_KEEP_METHODS = {"expect_vector", "expect_integer"}
UNIT = copy.deepcopy(_full.UNIT)
UNIT["props"] = ["C03"]
UNIT["prelude"] = _full.PRELUDE_IDENTITY
UNIT["spec"] = ""
_items = []
for _it in UNIT["items"]:
    if _it.get("kind") in ("fn", "macro_fn"):
        if _it["name"] not in _KEEP_FNS:
            continue
        _it["props"] = ["C03"]
    if _it.get("methods"):
        _it["methods"] = {k: dict(v, props=["C03"]) for k, v in _it["methods"].items() if k in _KEEP_METHODS}
        if not _it["methods"]:
            continue
    _items.append(_it)
UNIT["items"] = _items
