# C12 (last clause: "several import sets in one declaration contribute the union"): Interpreter::eval_import.
# Real code under contract: src/interpreter/interpreter.rs  Interpreter::eval_import
# eval_import_set is PROVED in unit interp_import (here: an uninterpreted relation), the table is an opaque HashMap with a
# ghost view, Environment::define is a history fact (`was_defined`: the frame's own state is outside Verus).
import importlib.util as _u
import os as _os

_spec = _u.spec_from_file_location("interp_import_for_union", _os.path.join(_os.path.dirname(__file__), "interp_import.py"))
_imp = _u.module_from_spec(_spec)
_spec.loader.exec_module(_imp)

I = "src/interpreter/interpreter.rs"
P = "src/parser/parser.rs"
E = "src/error.rs"

PRELUDE = r'''
pub trait RealNumberInternalTrait: Sized {}
#[verifier::external_body] #[verifier::reject_recursive_types(R)]
pub struct Value<R: RealNumberInternalTrait> { _p: core::marker::PhantomData<R> }        // only passed around (X2)
#[verifier::external_body] #[verifier::reject_recursive_types(R)]
pub struct Environment<R: RealNumberInternalTrait> { _p: core::marker::PhantomData<R> }  // LexicalScope<Value<R>> (X2)
#[verifier::external_body] pub struct SchemeError { _p: () }
pub type Result<T> = core::result::Result<T, SchemeError>;
pub type Binding<R> = (String, Value<R>);

/// `eval_import_set(set)` may return r -- the relation PROVED for it in unit interp_import (import_sem), uninterpreted here
pub uninterp spec fn set_rel<R: RealNumberInternalTrait>(set: ImportSet, r: Result<Vec<Binding<R>>>) -> bool;
/// history fact: `define(name, value)` was called on this frame
pub uninterp spec fn was_defined<R: RealNumberInternalTrait>(env: Environment<R>, name: Seq<char>, value: Value<R>) -> bool;
impl<R: RealNumberInternalTrait> Environment<R> {
    #[verifier::external_body]
    pub fn define(&self, name: String, value: Value<R>) ensures was_defined(*self, name@, value) { unimplemented!() }
}
impl<'a, R: RealNumberInternalTrait> Interpreter<'a, R> {
    #[verifier::external_body]
    pub fn eval_import_set(&mut self, import: &ImportSet) -> (r: Result<Vec<Binding<R>>>)
        ensures set_rel(*import, r) { unimplemented!() }
}
// ---- the table: HashMap<String, Value<R>> as an opaque type with a ghost view (X2); std through wrappers (X3s) ----
#[verifier::external_body] #[verifier::reject_recursive_types(R)]
pub struct DefMap<R: RealNumberInternalTrait> { _p: core::marker::PhantomData<R> }
pub uninterp spec fn defs_view<R: RealNumberInternalTrait>(m: DefMap<R>) -> Map<Seq<char>, Value<R>>;
#[verifier::external_body]
pub fn std_new_defmap<R: RealNumberInternalTrait>() -> (r: DefMap<R>) ensures defs_view(r) == Map::<Seq<char>, Value<R>>::empty() { unimplemented!() }
/// ASSUMED (std): `map.extend(v.into_iter())` inserts the pairs in order (a later pair for a name replaces an earlier one)
#[verifier::external_body]
pub fn std_map_extend<R: RealNumberInternalTrait>(m: &mut DefMap<R>, v: Vec<Binding<R>>)
    ensures defs_view(*final(m)) == insert_all(defs_view(*old(m)), v@, v@.len() as int), obs(defs_view(*old(m)), v) { unimplemented!() }
/// ASSUMED (std): iterating a HashMap by value yields every entry exactly once, in an unspecified order
#[verifier::external_body]
pub fn std_map_entries<R: RealNumberInternalTrait>(m: DefMap<R>) -> (r: Vec<Binding<R>>)
    ensures forall|n: Seq<char>| #[trigger] defs_view(m).dom().contains(n) ==> exists|i: int| 0 <= i < r@.len() && #[trigger] r@[i].0@ == n && r@[i].1 == defs_view(m)[n],
            forall|i: int| 0 <= i < r@.len() ==> defs_view(m).dom().contains(#[trigger] r@[i].0@) && defs_view(m)[r@[i].0@] == r@[i].1,
{ unimplemented!() }

// ------------------------------------------------------------------------------------------
// Specification (C12: the union of the import sets of one declaration)
// ------------------------------------------------------------------------------------------
/// the table after inserting the first n pairs of v, in order
pub open spec fn insert_all<R: RealNumberInternalTrait>(m: Map<Seq<char>, Value<R>>, v: Seq<Binding<R>>, n: int) -> Map<Seq<char>, Value<R>>
    decreases n
{
    if n <= 0 { m } else { insert_all(m, v, n - 1).insert(v[n - 1].0@, v[n - 1].1) }
}
// trigger carrier (see interp_eval)
pub open spec fn obs<R: RealNumberInternalTrait>(m0: Map<Seq<char>, Value<R>>, v: Vec<Binding<R>>) -> bool { true }
/// m is the union of what the first n import sets yield (a later set wins on a name several sets bind)
pub open spec fn union_of<R: RealNumberInternalTrait>(sets: Seq<ImportSet>, n: int, m: Map<Seq<char>, Value<R>>) -> bool
    decreases n
{
    if n <= 0 { m == Map::<Seq<char>, Value<R>>::empty() }
    else { exists|m0: Map<Seq<char>, Value<R>>, v: Vec<Binding<R>>| #[trigger] obs(m0, v) && union_of(sets, n - 1, m0)
               && set_rel(sets[n - 1], Ok::<Vec<Binding<R>>, SchemeError>(v)) && m == insert_all(m0, v@, v@.len() as int) }
}
/// C12: on success every binding of the union has been defined in the importing frame, and nothing else was (by this call)
pub open spec fn import_post<R: RealNumberInternalTrait>(imports: ImportDeclaration, env: Environment<R>, r: Result<()>) -> bool {
    r is Ok ==> exists|m: Map<Seq<char>, Value<R>>| #[trigger] union_of(imports.0@, imports.0@.len() as int, m)
        && forall|n: Seq<char>| #[trigger] m.dom().contains(n) ==> was_defined(env, n, m[n])
}
'''

TYPE_ITEMS = [it for it in _imp.UNIT["items"] if it.get("name") in ("Located", "LibraryNameElement", "LibraryName", "ImportSet", "ImportSetBody")]

UNIT = {
    "props": ["C12"],
    "header": _imp.HEADER,
    "uses": "use std::rc::Rc;\nuse std::marker::PhantomData;",
    "rlimit": 40,
    "trusted": {
        "Value": "opaque type (X2)", "Environment": "opaque type (X2)", "SchemeError": "opaque type (X2)", "DefMap": "opaque: HashMap<String, Value<R>> (X2)",
        "define": "LexicalScope::define as a history fact (was_defined); the frame's state is outside Verus",
        "eval_import_set": "CONTRACT PROVED IN UNIT interp_import (here the uninterpreted relation set_rel)",
        "std_new_defmap": "X3s: HashMap::new()", "std_map_extend": "ASSUMED (std): HashMap::extend inserts in order",
        "std_map_entries": "ASSUMED (std): HashMap::into_iter yields every entry once",
    },
    "prelude": PRELUDE,
    "items": TYPE_ITEMS + [
        {"kind": "struct", "file": P, "name": "ImportDeclaration"},
        {"kind": "struct", "file": I, "name": "Interpreter", "attrs": "#[verifier::reject_recursive_types(R)]",
         "rewrites": [("X14", r"pub env: Rc<Environment<R>>,\s*lib_loader: LibraryLoader<'a, R>,\s*imported_library: HashSet<LibraryName>,", "", 1, "S"),
                      ("X14", r"(?://[^\n]*\n\s*)?lib_instances: HashMap<LibraryName, Library<R>>,", "", 0, "S"),
                      ("X14", r"import_end: bool,[^\n]*\n\s*pub program_directory: Option<PathBuf>,", "", 1, "S"),
                      ("X14", r"_marker: PhantomData<R>,", "_marker: PhantomData<&'a R>,", 1)]},
        {"kind": "impl", "file": I, "impl": r"^impl<'a, R: RealNumberInternalTrait> Interpreter<'a, R>$",
         "methods": {"eval_import": {"props": ["C12", "C07"],
             "attrs": "#[verifier::loop_isolation(false)]",
             "bind": {"DEFS": (r"let mut (\w+) = HashMap::new\(\);", "definitions"), "IMP": (r"for (\w+) in &imports\.0", "import")},
             "sig_rewrites": [("S1", r"\) -> Result<\(\)>$", ") -> (r: Result<()>)", 1, "S")],
             "rewrites": [
                 ("X3s", r"let mut ${DEFS} = HashMap::new\(\);", "let mut ${DEFS} = std_new_defmap();"),
                 # the argument of extend is the real text (captured)
                 ("X3s", r"${DEFS}\.extend\(((?:[^()]|\((?:[^()]|\([^()]*\))*\))+)\.into_iter\(\)\);", r"std_map_extend(&mut ${DEFS}, \1);", 1),
                 ("L1", r"for ${IMP} in &imports\.0 \{", "for ${IMP} in imports.0.iter() {"),
                 ("X3s", r"for \((\w+), (\w+)\) in ${DEFS} \{", r"for entry in std_map_entries(${DEFS}) { let (\1, \2) = entry;", 1),
             ],
             "loops": {
                 1: {"expect_kw": "for", "iter_name": "it1", "invariant": """            invariant
                it1.seq().len() == imports.0@.len(),
                forall|i: int| 0 <= i < imports.0@.len() ==> *it1.seq()[i] == imports.0@[i],
                union_of(imports.0@, it1.index() as int, defs_view(${DEFS})),""",
                     "body_start": "            proof { assert(*${IMP} == imports.0@[it1.index() as int]); }"},
                 2: {"expect_kw": "for", "iter_name": "it2", "invariant": """            invariant
                forall|i: int| 0 <= i < it2.index() ==> was_defined(*env, (#[trigger] it2.seq()[i]).0@, it2.seq()[i].1),"""},
             },
             "contract": "        ensures import_post(*imports, *env, r),"}}},
    ],
    "spec": "",
}
