# C04 (first sentence and last clause): UserDefinedTransformer::transform tries the rules in textual order,
# expands with the FIRST rule whose pattern matches, and reports a syntax error when none matches.
# Real code under contract: src/parser/macros.rs  UserDefinedTransformer::transform
# Opaque (X2) / assumed-contract callees (X3): SyntaxPattern::match_datum, SyntaxTemplate::substitude

M = "src/parser/macros.rs"

PRELUDE = r'''
// ---- opaque types (X2) ----
#[verifier::external_body] pub struct Datum { _p: () }
#[verifier::external_body] pub struct SyntaxPattern { _p: () }
#[verifier::external_body] pub struct SyntaxTemplate { _p: () }
#[verifier::external_body] pub struct SchemeError { _p: () }
pub type Substitutions = HashMap<String, (Datum, Vec<Datum>)>;

// ---- ghost vocabulary: the matcher and the template filler are uninterpreted relations ----
/// does pattern p match datum d under the literal set (Err: the matcher itself failed)
pub uninterp spec fn match_res(p: SyntaxPattern, d: Datum, literals: HashSet<String>) -> Result<bool, SchemeError>;
/// the bindings a successful match produces
pub uninterp spec fn subst_of(p: SyntaxPattern, d: Datum, literals: HashSet<String>) -> Substitutions;
/// what a successful match leaves in a table that already held `before`: the matcher only INSERTS bindings,
/// it never clears the table (so stale bindings of an earlier, failed rule would survive)
pub uninterp spec fn merge_subst(before: Substitutions, bindings: Substitutions) -> Substitutions;
/// ... and into an empty table that is exactly the bindings of the match
#[verifier::external_body]
pub proof fn axiom_merge_into_empty(before: Substitutions)
    requires before@.len() == 0,
    ensures forall|bindings: Substitutions| #[trigger] merge_subst(before, bindings) == bindings,
{}
/// the template filled with bindings
pub uninterp spec fn expansion(t: SyntaxTemplate, s: Substitutions) -> Result<Vec<Datum>, SchemeError>;
pub uninterp spec fn is_macro_mismatch(e: SchemeError) -> bool;
pub uninterp spec fn is_multiple_datum(e: SchemeError) -> bool;

/// C04: "rewritten by the first rule, in textual order, whose pattern matches ... a use that matches no
/// rule is a syntax error, never a silent mis-expansion" -- what `transform` must return, deciding from rule `from` on
pub open spec fn transform_post(t: UserDefinedTransformer, datum: Datum, r: Result<Datum, SchemeError>, from: int) -> bool
    decreases t.rules.len() - from
{
    if from < 0 || from >= t.rules.len() {
        r is Err && is_macro_mismatch(r->Err_0)
    } else {
        let (p, tpl) = t.rules[from];
        match match_res(p, datum, t.literals) {
            Err(e) => r == Err::<Datum, SchemeError>(e),
            Ok(false) => transform_post(t, datum, r, from + 1),
            Ok(true) => match expansion(tpl, subst_of(p, datum, t.literals)) {
                Err(e) => r == Err::<Datum, SchemeError>(e),
                Ok(v) => if v.len() == 1 { r == Ok::<Datum, SchemeError>(v[0]) }
                         else { r is Err && is_multiple_datum(r->Err_0) },
            },
        }
    }
}

// ---- callees outside the unit (X3, assumed contracts) ----
impl SyntaxPattern {
    #[verifier::external_body]
    pub fn match_datum(&self, datum: &Datum, depth: usize, pattern_literals: &HashSet<String>,
                       substitutions: &mut Substitutions) -> (r: Result<bool, SchemeError>)
        ensures
            r == match_res(*self, *datum, *pattern_literals),
            r == Ok::<bool, SchemeError>(true) ==>
                *final(substitutions) == merge_subst(*old(substitutions), subst_of(*self, *datum, *pattern_literals)),
    { unimplemented!() }
    /// `pattern.location` (field of Located<SyntaxPatternBody>) -- only used for the error location
    #[verifier::external_body]
    pub fn location_of(&self) -> Option<[u32; 2]> { unimplemented!() }
}
impl SyntaxTemplate {
    #[verifier::external_body]
    pub fn substitude(&self, substitutions: &Substitutions) -> (r: Result<Vec<Datum>, SchemeError>)
        ensures r == expansion(*self, *substitutions),
    { unimplemented!() }
}
/// located_error!(SyntaxError::TransformOutMultipleDatum, loc)   (X6)
#[verifier::external_body]
pub fn multiple_datum_error(loc: Option<[u32; 2]>) -> (r: Result<Datum, SchemeError>)
    ensures r is Err, is_multiple_datum(r->Err_0),
{ unimplemented!() }
/// error!(SyntaxError::MacroMissMatch(keyword.to_string(), datum))   (X6)
#[verifier::external_body]
pub fn macro_mismatch_error(keyword: &str, datum: Datum) -> (r: Result<Datum, SchemeError>)
    ensures r is Err, is_macro_mismatch(r->Err_0),
{ unimplemented!() }
'''

UNIT = {
    "props": ["C04", "C07"],
    "uses": "use std::collections::{HashMap, HashSet};",
    "rlimit": 30,
    "trusted": {
        "Datum": "opaque type (X2)", "SyntaxPattern": "opaque type (X2)", "SyntaxTemplate": "opaque type (X2)",
        "SchemeError": "opaque type (X2); the MacroMissMatch / TransformOutMultipleDatum kinds are uninterpreted predicates",
        "match_datum": "ASSUMED CONTRACT: the matcher is the uninterpreted relation match_res / subst_of and only ADDS its bindings to the table it is given (its own correctness is not decided here)",
        "axiom_merge_into_empty": "part of that assumed contract: bindings added to an empty table are exactly the bindings",
        "location_of": "X6: `pattern.location` read through an opaque getter (error location only)",
        "substitude": "ASSUMED CONTRACT: the template filler is the uninterpreted function expansion",
        "multiple_datum_error": "X6: located_error!(SyntaxError::TransformOutMultipleDatum, ..) builds an error of that kind",
        "macro_mismatch_error": "X6: error!(SyntaxError::MacroMissMatch(..)) builds an error of that kind",
    },
    "prelude": PRELUDE,
    "items": [
        {"kind": "struct", "file": M, "name": "UserDefinedTransformer"},
        {"kind": "impl", "file": M, "impl": r"^impl UserDefinedTransformer$",
         "methods": {"transform": {"props": ["C04", "C07"],
             "sig_rewrites": [("S1", r"-> Result<Datum, SchemeError>$", "-> (r: Result<Datum, SchemeError>)")],
             "rewrites": [
                 ("X6", r"return located_error!\(\s*SyntaxError::TransformOutMultipleDatum,\s*pattern\.location\s*\);",
                  "return multiple_datum_error(pattern.location_of());", 0, "S"),
                 ("X6", r"error!\(SyntaxError::MacroMissMatch\(keyword\.to_string\(\), datum\)\)",
                  "macro_mismatch_error(keyword, datum)", 0),
             ],
             "inserts": [(r"let mut substitutions = HashMap::new\(\);",
                          "            proof { if substitutions@.len() == 0 { axiom_merge_into_empty(substitutions); } }")],
             "contract": "        ensures transform_post(*self, datum, r, 0),",
             "loops": {1: {"expect_kw": "for",
                           "iter_name": "it",
                           "invariant": """            invariant
                forall|res: Result<Datum, SchemeError>| transform_post(*self, datum, res, it.index() as int)
                    ==> transform_post(*self, datum, res, 0),"""}},
             }}},
    ],
    "spec": "",
}
