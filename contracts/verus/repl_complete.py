# C18: the REPL's completeness test `check_bracket_closed` against a reader-derived state machine.
# Real code under contract: src/repl.rs  enum ScanState, fn check_bracket_closed.

SPEC = r'''
// ---------------------------------------------------------------------------------------------
// Specification: the reader's view of list nesting (transcribed from src/parser/lexer.rs:
// try_next / comment / string / quoted_identifier).  `(`, `#(` and the `(` of `#u8(` open a list,
// `)` closes one -- but only in code; a `;` comment runs to the end of the line, "..." with
// \-escapes, |...| and the single character after #\ are opaque.
// ---------------------------------------------------------------------------------------------
pub enum Mode { Code, Comment, Str, StrEsc, Bar, Hash, CharLit }

pub open spec fn step(st: (int, Mode), c: char) -> (int, Mode) {
    let (d, m) = st;
    match m {
        Mode::Code =>
            if c == '(' { (d + 1, Mode::Code) }
            else if c == ')' { (d - 1, Mode::Code) }
            else if c == ';' { (d, Mode::Comment) }
            else if c == '"' { (d, Mode::Str) }
            else if c == '|' { (d, Mode::Bar) }
            else if c == '#' { (d, Mode::Hash) }
            else { (d, Mode::Code) },
        Mode::Comment => if c == '\n' || c == '\r' { (d, Mode::Code) } else { (d, Mode::Comment) },
        Mode::Str => if c == '"' { (d, Mode::Code) } else if c == '\\' { (d, Mode::StrEsc) } else { (d, Mode::Str) },
        Mode::StrEsc => (d, Mode::Str),
        Mode::Bar => if c == '|' { (d, Mode::Code) } else { (d, Mode::Bar) },
        Mode::Hash => if c == '(' { (d + 1, Mode::Code) } else if c == '\\' { (d, Mode::CharLit) } else { (d, Mode::Code) },
        Mode::CharLit => (d, Mode::Code),
    }
}

/// state of the reader after the whole text `s`, starting from `init`
pub open spec fn run_from(init: (int, Mode), s: Seq<char>) -> (int, Mode)
    decreases s.len()
{
    if s.len() == 0 { init } else { step(run_from(init, s.drop_last()), s.last()) }
}
pub open spec fn run(s: Seq<char>) -> (int, Mode) { run_from((0, Mode::Code), s) }

/// C18: "the lines entered so far close every list they opened"
pub open spec fn complete(s: Seq<char>) -> bool { run(s).0 <= 0 }

proof fn lemma_run_bound(s: Seq<char>)
    ensures -s.len() <= run(s).0 <= s.len()
    decreases s.len()
{
    if s.len() > 0 { lemma_run_bound(s.drop_last()); }
}

/// C18 "the transcript is the same however a form is split across lines": the reader state after
/// a ++ b depends on a only through run(a) -- so the verdict on the accumulated text cannot depend
/// on where earlier line breaks fell, only on the text itself.
proof fn lemma_split_invariance(init: (int, Mode), a: Seq<char>, b: Seq<char>)
    ensures run_from(init, a + b) == run_from(run_from(init, a), b)
    decreases b.len()
{
    if b.len() == 0 {
        assert(a + b =~= a);
    } else {
        lemma_split_invariance(init, a, b.drop_last());
        assert((a + b).drop_last() =~= a + b.drop_last());
        assert((a + b).last() == b.last());
    }
}

// ---- link between the implementation's scanner state and the spec's (proof-internal) ----
spec fn mode_of(s: ScanState) -> Mode {
    match s {
        ScanState::Code => Mode::Code,
        ScanState::Comment => Mode::Comment,
        ScanState::String => Mode::Str,
        ScanState::StringEscape => Mode::StrEsc,
        ScanState::QuotedIdentifier => Mode::Bar,
        ScanState::Sharp => Mode::Hash,
        ScanState::Character => Mode::CharLit,
    }
}

// ---- witness: the shape of the one real call site, `check_bracket_closed(source.chars())`, meets
// ---- the precondition, and yields the property over the text of the String itself
fn witness_caller(source: &str) -> (r: bool)
    requires source@.len() < i32::MAX,
    ensures r == complete(source@),
{
    check_bracket_closed(source.chars())
}
'''

UNIT = {
    "props": ["C18", "C07"],
    "uses": "use vstd::std_specs::iter::IteratorSpec;",
    "trusted": {},
    "items": [
        {"kind": "enum", "file": "src/repl.rs", "name": "ScanState",
         "attrs": "#[derive(Clone, Copy, PartialEq)]"},
        {"kind": "fn", "file": "src/repl.rs", "name": "check_bracket_closed", "props": ["C18", "C07"],
         # rule X4: the generic iterator parameter is instantiated at the type of the one real call site
         "sig_rewrites": [("X4", r"chars: impl Iterator<Item = char>\) -> bool",
                           "chars: core::str::Chars<'_>) -> (r: bool)")],
         "call_site_check": {"file": "src/repl.rs", "pattern": r"check_bracket_closed\(source\.chars\(\)\)"},
         # rule B1: the names of the three locals the invariant mentions are read from the code
         "bind": {"COUNT": (r"let mut (\w+) = 0;", "count"), "STATE": (r"let mut (\w+) = ScanState::Code;", "state"),
                  "C": (r"for (\w+) in chars", "c")},
         "contract": """    requires chars.obeys_prophetic_iter_laws(), chars.decrease() is Some,
        chars.remaining().len() < i32::MAX,
    ensures r == complete(chars.remaining()),""",
         "loops": {1: {"expect_kw": "for",
                       "iter_name": "it",
                       "invariant": """        invariant
            (${COUNT} as int, mode_of(${STATE})) == run(it.history()),
            it.seq().len() < i32::MAX,
            it.seq() == chars.remaining(),
            it.history().len() == it.seq().len() ==> it.history() == it.seq(),""",
                       "body_start": "        proof { lemma_run_bound(it.history()); assert(it.history().push(${C}).drop_last() =~= it.history()); }"}},
         },
    ],
    "spec": SPEC,
}


# ---- as-found variant (VERIF_ASFOUND=1): the same contract on the function as it was at the pinned commit
# ---- (two-state scanner, no ScanState enum).  Used once, to report defect F5 before the fix: commit.
import copy as _copy
UNIT_ASFOUND = _copy.deepcopy(UNIT)
UNIT_ASFOUND["items"] = [it for it in UNIT_ASFOUND["items"] if it.get("name") != "ScanState"]
UNIT_ASFOUND["items"][0]["loops"] = {1: {"expect_kw": "for", "iter_name": "it",
    "invariant": """        invariant
            -it.history().len() <= count <= it.history().len(),
            it.seq().len() < i32::MAX,
            it.seq() == chars.remaining(),
            it.history().len() == it.seq().len() ==> it.history() == it.seq(),"""}}
UNIT_ASFOUND["spec"] = SPEC.replace(SPEC[SPEC.index("// ---- link between"):SPEC.index("// ---- witness:")], "")
