# C06 (reader half, dispatch): Parser::datum / current_datum / parse_quoted / vector / advance / advance_unwrap /
# peek_next_token -- which datum a token sequence denotes.
# Real code under contract: src/parser/parser.rs (the methods above), over the real Token / Datum types.
# NOT under contract (assumed, stated in `trusted`, covered by the BOUNDED enumeration of reader_witness only):
#   Parser::current_list_or_pair (builds the list through a `&mut` cursor into its own tail) and
#   Parser::repeat (a lazy `impl Iterator` of closures over `&mut self`) -- both outside what Verus accepts.
import importlib.util as _u
import os as _os

_spec = _u.spec_from_file_location("lexer_pos_for_reader", _os.path.join(_os.path.dirname(__file__), "lexer_pos.py"))
_pos = _u.module_from_spec(_spec)
_spec.loader.exec_module(_pos)

L = "src/parser/lexer.rs"
E = "src/error.rs"
D = "src/parser/datum.rs"
PR = "src/parser/pair.rs"
P = "src/parser/parser.rs"

# the Peekable model (rem / consumed, next, peek) is the one of unit lexer_pos, taken over textually
_PEEKABLE = _pos.PRELUDE[:_pos.PRELUDE.index("#[verifier::external_trait_specification]")]

PRELUDE = _PEEKABLE + r'''
// ---- opaque (X2) ----
#[verifier::external_body] pub struct SchemeError { _p: () }
pub type Result<T> = core::result::Result<T, SchemeError>;
/// located_error!(SyntaxError::..., location): the message arguments are dropped (X6), an Err is built
#[verifier::external_body]
pub fn syntax_error<T>(location: Option<[u32; 2]>) -> (r: Result<T>) ensures r is Err { unimplemented!() }
/// ErrorData::from(SyntaxError::UnexpectedEnd).no_locate() (X6)
#[verifier::external_body]
pub fn end_error() -> (r: SchemeError) { unimplemented!() }
impl Clone for SchemeError {
    #[verifier::external_body] fn clone(&self) -> (r: Self) { unimplemented!() }
}
impl Clone for Primitive {
    /// derive(Clone) on Primitive: structural (trusted)
    #[verifier::external_body] fn clone(&self) -> (r: Self) ensures r == *self { unimplemented!() }
}
impl PartialEq for DatumBody {
    /// derive(PartialEq) on DatumBody (only the bound `T: PartialEq` of Parser::locate needs it)
    #[verifier::external_body] fn eq(&self, other: &Self) -> (r: bool) { unimplemented!() }
}
impl ToLocated for DatumBody {}   // datum.rs (checked: require_source)
impl PartialEq for TokenData {
    /// derive(PartialEq) on TokenData: structural (trusted)
    #[verifier::external_body] fn eq(&self, other: &Self) -> (r: bool) ensures r == (*self == *other) { unimplemented!() }
}
impl Clone for TokenData {
    #[verifier::external_body] fn clone(&self) -> (r: Self) ensures r == *self { unimplemented!() }
}
// core: impl<T> From<T> for Option<T> (`x.into()` where an Option is expected), Option<Result<T, E>>::transpose
pub assume_specification<T>[ <Option<T> as From<T>>::from ](t: T) -> (r: Option<T>) ensures r == Some(t);
pub assume_specification<T, E>[ Option::<core::result::Result<T, E>>::transpose ](o: Option<core::result::Result<T, E>>) -> (r: core::result::Result<Option<T>, E>)
    ensures r == (match o { None => Ok::<Option<T>, E>(None), Some(Ok(t)) => Ok(Some(t)), Some(Err(e)) => Err(e) });

// ------------------------------------------------------------------------------------------
// Specification (C06, last clause): the data a token sequence denotes -- R7RS 7.1.2
//   <datum> = <simple datum> | ( <datum>* ) | ( <datum>+ . <datum> ) | #( <datum>* ) | ' <datum>
// ------------------------------------------------------------------------------------------
/// a datum without its source locations (where a datum came from is C15's business)
pub enum Tree {
    Prim(Primitive),
    Sym(Seq<char>),
    Nil,
    Cons(Box<Tree>, Box<Tree>),
    Vector(Seq<Tree>),
}
pub open spec fn shape(d: Datum) -> Tree
    decreases d
{
    match d.data {
        DatumBody::Primitive(p) => Tree::Prim(p),
        DatumBody::Symbol(s) => Tree::Sym(s@),
        DatumBody::Pair(b) => shape_list(*b),
        DatumBody::Vector(v) => Tree::Vector(vec_trees(v)),
    }
}
/// the trees of a vector's elements, in order
pub open spec fn vec_trees(v: Vec<Datum>) -> Seq<Tree>
    decreases v
{
    Seq::new(v@.len(), |i: int| if 0 <= i < v@.len() { shape(v@[i]) } else { Tree::Nil })
}
pub open spec fn shape_list(l: DatumList) -> Tree
    decreases l
{
    match l {
        GenericPair::Empty => Tree::Nil,
        GenericPair::Some(car, cdr) => Tree::Cons(Box::new(shape(car)), Box::new(shape(cdr))),
    }
}
pub open spec fn quote_sym() -> Seq<char> { "quote"@ }
/// the tokens still to come: what the lexer will yield (an Err is a lexical error at that point)
pub type Toks = Seq<Result<Token>>;
/// the datum that starts with the token `cur` (already taken) and continues at ts[i..]: its tree and the index after it
pub open spec fn rd_tok(cur: TokenData, ts: Toks, i: nat) -> Option<(Tree, nat)>
    decreases ts.len() - i, 2nat
{
    match cur {
        TokenData::Primitive(p) => Some((Tree::Prim(p), i)),
        TokenData::Identifier(s) => Some((Tree::Sym(s@), i)),
        TokenData::LeftParen => rd_list(ts, i),
        TokenData::VecConsIntro => match rd_vec(ts, i) {
            Some((items, j)) => Some((Tree::Vector(items), j)),
            None => None,
        },
        // 'x is (quote x)
        TokenData::Quote => match rd_at(ts, i) {
            Some((t, j)) => Some((Tree::Cons(Box::new(Tree::Sym(quote_sym())), Box::new(Tree::Cons(Box::new(t), Box::new(Tree::Nil)))), j)),
            None => None,
        },
        _ => None,   // ) . and the tokens the reader does not know start no datum
    }
}
/// one datum starting at ts[i]
pub open spec fn rd_at(ts: Toks, i: nat) -> Option<(Tree, nat)>
    decreases ts.len() - i, 0nat
{
    if i < ts.len() {
        match ts[i as int] {
            Ok(tok) => rd_tok(tok.data, ts, i + 1),
            Err(_) => None,
        }
    } else { None }
}
pub open spec fn tok_is(ts: Toks, i: nat, d: TokenData) -> bool {
    i < ts.len() && (ts[i as int] matches Ok(tok) && tok.data == d)
}
/// the rest of a list after `(`:  <datum>* )  |  <datum>+ . <datum> )
pub open spec fn rd_list(ts: Toks, i: nat) -> Option<(Tree, nat)>
    decreases ts.len() - i, 1nat
{
    if i >= ts.len() { None }
    else if tok_is(ts, i, TokenData::RightParen) { Some((Tree::Nil, i + 1)) }
    else {
        match rd_at(ts, i) {
            None => None,
            Some((car, j)) =>
                if j <= i || j > ts.len() { None }   // (never: a datum has at least one token; keeps the definition well-founded)
                else if tok_is(ts, j, TokenData::Period) {
                    match rd_at(ts, j + 1) {
                        Some((cdr, k)) => if tok_is(ts, k, TokenData::RightParen) { Some((Tree::Cons(Box::new(car), Box::new(cdr)), k + 1)) } else { None },
                        None => None,
                    }
                } else {
                    match rd_list(ts, j) {
                        Some((cdr, k)) => Some((Tree::Cons(Box::new(car), Box::new(cdr)), k)),
                        None => None,
                    }
                },
        }
    }
}
/// the rest of a vector after `#(`:  <datum>* )
pub open spec fn rd_vec(ts: Toks, i: nat) -> Option<(Seq<Tree>, nat)>
    decreases ts.len() - i, 1nat
{
    if i >= ts.len() { None }
    else if tok_is(ts, i, TokenData::RightParen) { Some((Seq::<Tree>::empty(), i + 1)) }
    else {
        match rd_at(ts, i) {
            None => None,
            Some((first, j)) =>
                if j <= i || j > ts.len() { None }
                else {
                    match rd_vec(ts, j) {
                        Some((rest, k)) => Some((seq![first] + rest, k)),
                        None => None,
                    }
                },
        }
    }
}
/// the whole token sequence of the parser's lexer (what it has yielded + what it will yield) and how far it has been read
pub open spec fn all<TokenIter: Iterator<Item = Result<Token>>>(p: Parser<TokenIter>) -> Toks { consumed(p.lexer) + rem(p.lexer) }
pub open spec fn at<TokenIter: Iterator<Item = Result<Token>>>(p: Parser<TokenIter>) -> nat { consumed(p.lexer).len() }
/// the contract of every reading function: `want` is what the token sequence denotes from the reading position on; the
/// function returns the datum with that tree and stops reading exactly after it -- or fails when no datum starts there
pub open spec fn read_post<TokenIter: Iterator<Item = Result<Token>>>(want: Option<(Tree, nat)>, before: Parser<TokenIter>, after: Parser<TokenIter>, r: Result<Datum>) -> bool {
    match want {
        Some((t, j)) => r matches Ok(d) && shape(d) == t && all(after) == all(before) && at(after) == j,
        None => r is Err,
    }
}
// trigger carrier (see interp_eval)
pub open spec fn obs_tree(t: Tree) -> bool { true }

/// pair.rs `list![a, b]` = vec![a, b].into_iter().collect::<GenericPair<_>>() (rule X3s; the macro's text is checked).
/// ASSUMED (pair.rs FromIterator, not under contract): the two-element proper list
#[verifier::external_body]
pub fn pair_list2(a: Datum, b: Datum) -> (r: DatumList)
    ensures shape_list(r) == Tree::Cons(Box::new(shape(a)), Box::new(Tree::Cons(Box::new(shape(b)), Box::new(Tree::Nil)))),
{ unimplemented!() }
impl<TokenIter: Iterator<Item = Result<Token>>> Parser<TokenIter> {
    /// parser.rs current_list_or_pair -- NOT VERIFIED (a `&mut` cursor into the list being built).  ASSUMED: it reads
    /// the rest of a list as R7RS defines it (rd_list).  Checked only by the bounded enumeration of reader_witness.
    #[verifier::external_body]
    pub fn current_list_or_pair(&mut self) -> (r: Result<Datum>)
        ensures read_post(rd_list(all(*old(self)), at(*old(self))), *old(self), *final(self), r),
    { unimplemented!() }
    /// parser.rs `self.repeat(Self::datum).collect::<Result<_>>()` (rule X3s) -- NOT VERIFIED (a lazy iterator of closures
    /// over `&mut self`).  ASSUMED: it reads data up to the closing parenthesis (rd_vec).  Checked only by reader_witness.
    #[verifier::external_body]
    pub fn repeat_datum_collect(&mut self) -> (r: Result<Vec<Datum>>)
        ensures match rd_vec(all(*old(self)), at(*old(self))) {
            Some((items, j)) => r matches Ok(v) && vec_trees(v) == items && all(*final(self)) == all(*old(self)) && at(*final(self)) == j,
            None => r is Err,
        },
    { unimplemented!() }
}
'''

_X6 = ("X6", r"located_error!\(\s*SyntaxError::\w+(?:\((?:[^()]|\((?:[^()]|\([^()]*\))*\))*\))?,\s*((?:\*?[\w.]+))\s*\)", r"syntax_error(\1)", 0, "S")

UNIT = {
    "props": ["C06"],
    "uses": "use core::iter::Peekable;",
    "rlimit": 40,
    "trusted": {
        "ExPeekable": "std::iter::Peekable as an opaque type",
        "next": "ASSUMED std contract: Peekable::next yields the head of the remaining input and drops it",
        "std_peekable": "X3s wrapper (unused here)",
        "peek": "ASSUMED std contract: Peekable::peek shows the head of the remaining input without consuming it",
        "SchemeError": "opaque type (X2)", "syntax_error": "X6: located_error!(SyntaxError::.., loc) builds an Err",
        "end_error": "X6: the UnexpectedEnd error value",
        "clone": "derive(Clone) on Primitive / TokenData / SchemeError: structural (trusted)",
        "eq": "derive(PartialEq) on TokenData: structural (trusted)",
        "from": "core: impl From<T> for Option<T> is Some", "transpose": "core: Option<Result<T,E>>::transpose",
        "pair_list2": "ASSUMED (pair.rs FromIterator for GenericPair, not under contract): list![a, b] is the proper list (a b)",
        "current_list_or_pair": "ASSUMED CONTRACT (NOT VERIFIED: &mut cursor into its own tail): reads the rest of a list as rd_list says; bounded check: reader_witness",
        "repeat_datum_collect": "ASSUMED CONTRACT (NOT VERIFIED: Parser::repeat is a lazy iterator of closures over &mut self): reads data up to `)` as rd_vec says; bounded check: reader_witness",
    },
    "prelude": PRELUDE,
    "items": [
        {"kind": "struct", "file": E, "name": "Located"},
        {"kind": "trait", "file": E, "name": "ToLocated", "keep_others": True,
         "methods": {"locate": {"props": ["C06"],
             "sig_rewrites": [("S1", r"-> Located<Self>(?=\s+where)", "-> (r: Located<Self>)")],
             "contract": "        ensures r.data == self, r.location == location,"}}},
        {"kind": "enum", "file": D, "name": "Primitive"},
        {"kind": "enum", "file": L, "name": "TokenData"},
        {"kind": "type", "file": L, "name": "Token"},
        {"kind": "enum", "file": PR, "name": "GenericPair",
         "require_source": [r"macro_rules! list \{\s*\(\$\(\$x:expr\),\*\) => \{\s*vec!\[\$\(\$x,\)\*\]\.into_iter\(\)\.collect::<GenericPair<_>>\(\)\s*\};\s*\}"]},
        {"kind": "type", "file": D, "name": "DatumList"},
        {"kind": "enum", "file": D, "name": "DatumBody", "require_source": [r"impl ToLocated for DatumBody \{\}"]},
        {"kind": "type", "file": D, "name": "Datum"},
        {"kind": "struct", "file": P, "name": "Parser", "attrs": "#[verifier::reject_recursive_types(TokenIter)]",
         "rewrites": [("X14", r"pub syntax_env: Rc<LexicalScope<Transformer>>,", "", 1)]},
        {"kind": "impl", "file": P, "impl": r"^impl<TokenIter: Iterator<Item = Result<Token>>> Parser<TokenIter>$",
         "methods": {
             "advance": {"props": ["C06", "C07"],
                 "sig_rewrites": [("S1", r"-> Result<&mut Option<Token>>$", "-> (r: Result<&mut Option<Token>>)")],
                 "contract": """        ensures ({
            let ts = all(*old(self));
            let a = at(*old(self));
            if count == 0 { r matches Ok(c) && *c == old(self).current && all(*final(self)) == ts && at(*final(self)) == a && final(self).current == *final(c) }
            else if a + count <= ts.len() {
                // count - 1 tokens are skipped; the next one becomes the current token, or is the lexical error reported
                match ts[a + count - 1] {
                    Ok(tok) => r matches Ok(c) && *c == Some(tok) && all(*final(self)) == ts && at(*final(self)) == a + count && final(self).current == *final(c),
                    Err(_) => r is Err,
                }
            } else { r matches Ok(c) && *c == None::<Token> && all(*final(self)) == ts && at(*final(self)) == ts.len() && final(self).current == *final(c) }
        }),""",
                 "loops": {1: {"expect_kw": "for", "iter_name": "it",
                               "invariant": """            invariant ({
                let ts = all(*old(self));
                let a = at(*old(self));
                let k = it.index() as int;
                &&& it.seq().len() == (if count >= 1 { count - 1 } else { 0 })
                &&& all(*self) == ts
                &&& at(*self) == (if a + k <= ts.len() { a + k } else { ts.len() as int })
                &&& self.current == old(self).current
            }),""",
                               "body_start": """            proof {
                let c0 = consumed(self.lexer);
                let r0 = rem(self.lexer);
                if r0.len() > 0 { assert(c0.push(r0[0]) + r0.skip(1) =~= c0 + r0); }
            }"""}},
                 "inserts": [(r"if count > 0 \{", """            proof {
                let c0 = consumed(self.lexer);
                let r0 = rem(self.lexer);
                if r0.len() > 0 { assert(c0.push(r0[0]) + r0.skip(1) =~= c0 + r0); assert((c0 + r0)[c0.len() as int] == r0[0]); }
            }""")],
                 },
             "advance_unwrap": {"props": ["C06", "C07"],
                 "sig_rewrites": [("S1", r"-> Result<&mut Token>$", "-> (r: Result<&mut Token>)")],
                 "rewrites": [_X6],
                 "contract": """        ensures ({
            let ts = all(*old(self));
            let a = at(*old(self));
            if count == 0 {
                match old(self).current { Some(tok) => r matches Ok(t) && *t == tok && all(*final(self)) == ts && at(*final(self)) == a && final(self).current == Some(*final(t)), None => r is Err }
            } else if a + count <= ts.len() {
                match ts[a + count - 1] {
                    Ok(tok) => r matches Ok(t) && *t == tok && all(*final(self)) == ts && at(*final(self)) == a + count && final(self).current == Some(*final(t)),
                    Err(_) => r is Err,
                }
            } else { r is Err }
        }),"""},
             "peek_next_token": {"props": ["C06", "C07"],
                 "sig_rewrites": [("S1", r"-> Result<Option<&Token>>$", "-> (r: Result<Option<&Token>>)")],
                 "contract": """        ensures all(*final(self)) == all(*old(self)), at(*final(self)) == at(*old(self)), final(self).current == old(self).current,
            at(*old(self)) >= all(*old(self)).len() ==> r == Ok::<Option<&Token>, SchemeError>(None),
            at(*old(self)) < all(*old(self)).len() ==> (match all(*old(self))[at(*old(self)) as int] { Ok(t) => r == Ok::<Option<&Token>, SchemeError>(Some(&t)), Err(_) => r is Err }),"""},
             "unwrap_non_end": {"props": ["C07"],
                 "sig_rewrites": [("S1", r"-> Result<T>$", "-> (r: Result<T>)")],
                 "rewrites": [("X6", r"\|\| ErrorData::from\(SyntaxError::UnexpectedEnd\)\.no_locate\(\)", "|| -> (e: SchemeError) { end_error() }", 1)],
                 "contract": "        ensures op matches Some(x) ==> r == Ok::<T, SchemeError>(x), op is None ==> r is Err,"},
             "locate": {"props": ["C06"],
                 "sig_rewrites": [("S1", r"-> Located<T>$", "-> (r: Located<T>)")],
                 "contract": "        ensures r.data == data,"},
             "parse_quoted": {"props": ["C06", "C07"],
                 "sig_rewrites": [("S1", r"-> Result<Datum>$", "-> (r: Result<Datum>)")],
                 "rewrites": [("X3s", r"list!\[\s*((?:[^\[\]])*?),\s*(\w+)\s*\]", r"pair_list2(\1, \2)", 1, "S")],
                 "contract": """        ensures ({
            // the current token starts the quoted datum; the result is (quote <that datum>)
            let inner = match old(self).current { Some(tok) => rd_tok(tok.data, all(*old(self)), at(*old(self))), None => None };
            read_post(match inner {
                Some((t, j)) => Some((Tree::Cons(Box::new(Tree::Sym(quote_sym())), Box::new(Tree::Cons(Box::new(t), Box::new(Tree::Nil)))), j)),
                None => None,
            }, *old(self), *final(self), r)
        }),
        decreases rem(old(self).lexer).len() + (if old(self).current is Some { 1nat } else { 0nat }), 1nat,"""},
             "vector": {"props": ["C06", "C07"],
                 "sig_rewrites": [("S1", r"-> Result<Datum>$", "-> (r: Result<Datum>)")],
                 "rewrites": [("X3s", r"self\.repeat\(Self::datum\)\.collect::<Result<_>>\(\)", "self.repeat_datum_collect()", 1)],
                 "contract": """        ensures read_post(match rd_vec(all(*old(self)), at(*old(self))) { Some((items, j)) => Some((Tree::Vector(items), j)), None => None },
                          *old(self), *final(self), r),"""},
             "datum": {"props": ["C06", "C07"],
                 "sig_rewrites": [("S1", r"-> Result<Datum>$", "-> (r: Result<Datum>)")],
                 "rewrites": [("X3s", r"self\.repeat\(Self::datum\)\.collect::<Result<_>>\(\)", "self.repeat_datum_collect()", 1), _X6],
                 "contract": """        ensures read_post(match old(self).current { Some(tok) => rd_tok(tok.data, all(*old(self)), at(*old(self))), None => None },
                          *old(self), *final(self), r),
        decreases rem(old(self).lexer).len() + (if old(self).current is Some { 1nat } else { 0nat }), 0nat,"""},
             "current_datum": {"props": ["C06", "C07"],
                 "sig_rewrites": [("S1", r"-> Result<Option<Datum>>$", "-> (r: Result<Option<Datum>>)")],
                 "rewrites": [_X6],
                 "contract": """        ensures match old(self).current {
            None => r == Ok::<Option<Datum>, SchemeError>(None),
            Some(tok) => match rd_tok(tok.data, all(*old(self)), at(*old(self))) {
                Some((t, j)) => r matches Ok(Some(d)) && shape(d) == t && all(*final(self)) == all(*old(self)) && at(*final(self)) == j,
                None => r is Err,
            },
        },"""},
         }},
    ],
    "spec": "",
}
