# C13 (first sentence): Interpreter::eval_library_definition -- a library is evaluated in an environment of its own and
# exposes exactly the bindings it exports, under their external names.
# Real code under contract: src/interpreter/interpreter.rs  Interpreter::eval_library_definition
# Opaque / assumed: eval_import, eval_expression_or_definition (the evaluator), Environment::new / get, Library::new,
#   HashMap<String, Value> (through an opaque type with a ghost view), Vec::extend (wrapper, rule X3s).

I = "src/interpreter/interpreter.rs"
P = "src/parser/parser.rs"
E = "src/error.rs"

HEADER = "#![feature(allocator_api)]\n#![allow(unused_imports, dead_code, unused_variables)]"

PRELUDE = r'''
pub trait RealNumberInternalTrait: Sized {}
#[verifier::external_body] #[verifier::reject_recursive_types(R)]
pub struct Value<R: RealNumberInternalTrait> { _p: core::marker::PhantomData<R> }        // only passed around (X2)
#[verifier::external_body] #[verifier::reject_recursive_types(R)]
pub struct Library<R: RealNumberInternalTrait> { _p: core::marker::PhantomData<R> }      // library::Library (X2)
#[verifier::external_body] #[verifier::reject_recursive_types(R)]
pub struct Environment<R: RealNumberInternalTrait> { _p: core::marker::PhantomData<R> }  // LexicalScope<Value<R>> (X2)
#[verifier::external_body] pub struct SchemeError { _p: () }
#[verifier::external_body] pub struct ImportDeclaration { _p: () }                       // parser::ImportDeclaration (X2)
#[verifier::external_body] pub struct Statement { _p: () }                               // parser::Statement (X2)
pub type Result<T> = core::result::Result<T, SchemeError>;

impl Clone for LibraryName {
    /// derive(Clone): structural (trusted)
    #[verifier::external_body] fn clone(&self) -> (r: Self) ensures r == *self { unimplemented!() }
}

// ---- the library's own environment ----
/// the frame was created by Environment::new() (no parent: nothing of the importer is visible in it)
pub uninterp spec fn fresh_root<R: RealNumberInternalTrait>(env: Environment<R>) -> bool;
/// what a name is bound to in a frame when the exports are collected (no evaluation happens between two lookups)
pub uninterp spec fn lookup<R: RealNumberInternalTrait>(env: Environment<R>, name: Seq<char>) -> Option<Value<R>>;
#[verifier::external_body] #[verifier::reject_recursive_types(R)]
pub struct ValueRef<'a, R: RealNumberInternalTrait> { _p: core::marker::PhantomData<&'a R> }   // cell::Ref<'a, Value<R>>
pub uninterp spec fn ref_value<R: RealNumberInternalTrait>(r: ValueRef<'_, R>) -> Value<R>;
impl<'a, R: RealNumberInternalTrait> ValueRef<'a, R> {
    #[verifier::external_body] pub fn clone(&self) -> (r: Value<R>) ensures r == ref_value(*self) { unimplemented!() }
}
impl<R: RealNumberInternalTrait> Environment<R> {
    /// environment.rs LexicalScope::new: a frame with no parent and no bindings
    #[verifier::external_body] pub fn new() -> (r: Self) ensures fresh_root(r) { unimplemented!() }
    /// environment.rs LexicalScope::new_child: a frame that sees its parent's bindings -- NOT a frame of its own
    #[verifier::external_body] pub fn new_child(parent: Rc<Self>) -> (r: Self) { unimplemented!() }
    /// environment.rs LexicalScope::get
    #[verifier::external_body] pub fn get(&self, name: &String) -> (r: Option<ValueRef<'_, R>>)
        ensures match r { Some(v) => lookup(*self, name@) == Some(ref_value(v)), None => lookup(*self, name@) is None } { unimplemented!() }
}
// ---- the table of exported bindings: HashMap<String, Value<R>> as an opaque type with a ghost view (X2) ----
#[verifier::external_body] #[verifier::reject_recursive_types(R)]
pub struct DefMap<R: RealNumberInternalTrait> { _p: core::marker::PhantomData<R> }
pub uninterp spec fn defs_view<R: RealNumberInternalTrait>(m: DefMap<R>) -> Map<Seq<char>, Value<R>>;
/// rule X3s: `HashMap::new()`
#[verifier::external_body]
pub fn std_new_defmap<R: RealNumberInternalTrait>() -> (r: DefMap<R>) ensures defs_view(r) == Map::<Seq<char>, Value<R>>::empty() { unimplemented!() }
impl<R: RealNumberInternalTrait> DefMap<R> {
    /// ASSUMED (std): HashMap::insert
    #[verifier::external_body]
    pub fn insert(&mut self, k: String, v: Value<R>) -> (r: Option<Value<R>>)
        ensures defs_view(*final(self)) == defs_view(*old(self)).insert(k@, v) { unimplemented!() }
}
pub uninterp spec fn lib_name<R: RealNumberInternalTrait>(l: Library<R>) -> LibraryName;
pub uninterp spec fn lib_defs<R: RealNumberInternalTrait>(l: Library<R>) -> Map<Seq<char>, Value<R>>;
impl<R: RealNumberInternalTrait> Library<R> {
    /// library/mod.rs Library::new(name, definitions): the library holds exactly these bindings
    #[verifier::external_body]
    pub fn new(library_name: LibraryName, definitions: DefMap<R>) -> (r: Self)
        ensures lib_name(r) == library_name, lib_defs(r) == defs_view(definitions) { unimplemented!() }
}
/// rule X3s: `v.extend(items.iter())` (references to the items appended, in order)
#[verifier::external_body]
pub fn std_extend_refs<'a, T>(v: &mut Vec<&'a T>, items: &'a Vec<T>)
    ensures refs(final(v)@) == refs(old(v)@) + items@ { unimplemented!() }
pub open spec fn refs<T>(s: Seq<&T>) -> Seq<T> { s.map_values(|r: &T| *r) }

pub uninterp spec fn is_unbound_symbol(e: SchemeError) -> bool;
pub uninterp spec fn err_location(e: SchemeError) -> Option<[u32; 2]>;
/// located_error!(LogicError::UnboundedSymbol(from.clone()), loc)   (X6)
#[verifier::external_body]
pub fn unbound_symbol_at<T>(loc: Option<[u32; 2]>) -> (r: Result<T>)
    ensures r is Err, is_unbound_symbol(r->Err_0), err_location(r->Err_0) == loc { unimplemented!() }

impl<'a, R: RealNumberInternalTrait> Interpreter<'a, R> {
    /// C13: the library's imports are bound in, and its body is evaluated in, the library's OWN frame
    #[verifier::external_body]
    pub fn eval_import(&mut self, imports: &ImportDeclaration, env: Rc<Environment<R>>) -> (r: Result<()>)
        requires fresh_root(*env),
    { unimplemented!() }
    #[verifier::external_body]
    pub fn eval_expression_or_definition(&mut self, statement: &Statement, env: Rc<Environment<R>>) -> (r: Result<Option<Value<R>>>)
        requires fresh_root(*env),
    { unimplemented!() }
}

// ------------------------------------------------------------------------------------------
// Specification (from the first sentence of C13)
// ------------------------------------------------------------------------------------------
/// the export specs of the first `upto` declarations, in order
pub open spec fn all_exports(decls: Seq<Located<LibraryDeclaration>>, upto: int) -> Seq<Located<ExportSpec>>
    decreases upto
{
    if upto <= 0 { Seq::empty() } else {
        let rest = all_exports(decls, upto - 1);
        match decls[upto - 1].data { LibraryDeclaration::Export(e) => rest + e@, _ => rest }
    }
}
/// (internal name, external name) of an export spec
pub open spec fn export_names(e: ExportSpec) -> (Seq<char>, Seq<char>) {
    match e { ExportSpec::Direct(id) => (id@, id@), ExportSpec::Rename(from, to) => (from@, to@) }
}
/// the bindings after the first n export specs: external name |-> what the internal name is bound to in the library's frame
pub open spec fn exported<R: RealNumberInternalTrait>(exports: Seq<Located<ExportSpec>>, env: Environment<R>, n: int) -> Map<Seq<char>, Value<R>>
    decreases n
{
    if n <= 0 { Map::empty() } else {
        let (from, to) = export_names(exports[n - 1].data);
        exported(exports, env, n - 1).insert(to, lookup(env, from)->Some_0)
    }
}
pub open spec fn all_bound<R: RealNumberInternalTrait>(exports: Seq<Located<ExportSpec>>, env: Environment<R>, n: int) -> bool {
    forall|i: int| 0 <= i < n ==> lookup(env, export_names(#[trigger] exports[i].data).0) is Some
}
/// C13: the library exposes exactly the bindings it exports, under their external names, bound to what the internal names
/// denote in a frame of its own
pub open spec fn library_post<R: RealNumberInternalTrait>(def: LibraryDefinition, r: Result<Library<R>>) -> bool {
    let ex = all_exports(def.1@, def.1@.len() as int);
    r matches Ok(lib) ==> lib_name(lib) == def.0 && exists|env: Environment<R>| #[trigger] fresh_root(env)
        && all_bound(ex, env, ex.len() as int) && lib_defs(lib) == exported(ex, env, ex.len() as int)
}
'''

UNIT = {
    "props": ["C13"],
    "header": HEADER,
    "uses": "use std::rc::Rc;\nuse std::marker::PhantomData;",
    "rlimit": 40,
    "trusted": {
        "Value": "opaque type (X2)", "Library": "opaque type (X2)", "Environment": "opaque type (X2)", "SchemeError": "opaque type (X2)",
        "ImportDeclaration": "opaque type (X2)", "Statement": "opaque type (X2)", "ValueRef": "opaque type (X2): cell::Ref<Value<R>>",
        "DefMap": "opaque: HashMap<String, Value<R>> (X2)",
        "clone": "derive(Clone) / Ref::clone: structural (trusted)",
        "new_child": "Environment::new_child: no contract (declared so that its use is an obligation failure, not a build failure)",
        "new": "Environment::new: a frame without parent (fresh_root); Library::new: holds exactly the given bindings",
        "get": "LexicalScope::get as a function of the frame and the name at export time",
        "std_new_defmap": "X3s: HashMap::new()", "insert": "ASSUMED (std): HashMap::insert",
        "std_extend_refs": "ASSUMED (std): Vec::extend with a slice iterator",
        "unbound_symbol_at": "X6",
        "eval_import": "the evaluator (not under contract); REQUIRES the library's own frame",
        "eval_expression_or_definition": "the evaluator (not under contract); REQUIRES the library's own frame",
    },
    "prelude": PRELUDE,
    "items": [
        {"kind": "struct", "file": E, "name": "Located",
         "require_source": [r"impl<T> Deref for Located<T> \{\s*type Target = T;\s*fn deref\(&self\) -> &Self::Target \{\s*&self\.data\s*\}"]},
        {"kind": "enum", "file": P, "name": "LibraryNameElement"},
        {"kind": "struct", "file": P, "name": "LibraryName"},
        {"kind": "enum", "file": P, "name": "ExportSpec"},
        {"kind": "enum", "file": P, "name": "LibraryDeclaration"},
        {"kind": "struct", "file": P, "name": "LibraryDefinition"},
        {"kind": "struct", "file": I, "name": "Interpreter", "attrs": "#[verifier::reject_recursive_types(R)]",
         "rewrites": [("X14", r"lib_loader: LibraryLoader<'a, R>,\s*imported_library: HashSet<LibraryName>,", "", 1, "S"),
                      ("X14", r"import_end: bool,[^\n]*\n\s*pub program_directory: Option<PathBuf>,", "", 1, "S"),
                      ("X14", r"(?://[^\n]*\n\s*)?lib_instances: HashMap<LibraryName, Library<R>>,", "", 0, "S"),
                      ("X14", r"_marker: PhantomData<R>,", "_marker: PhantomData<&'a R>,", 1)]},
        {"kind": "impl", "file": I, "impl": r"^impl<'a, R: RealNumberInternalTrait> Interpreter<'a, R>$",
         "methods": {"eval_library_definition": {"props": ["C13", "C07"],
             # rule B1: the locals the ghost text (and two rewrites) mention are read from the code
             "bind": {"EXPORTS": (r"let mut (\w+) = Vec::new\(\);", "final_exports"), "DEFS": (r"let mut (\w+) = HashMap::new\(\);", "definitions"),
                      "ENV": (r"let (\w+) = Rc::new\(Environment::new\(\)\);", "lib_env")},
             "attrs": "#[verifier::loop_isolation(false)]",
             "sig_rewrites": [("S1", r"\) -> Result<Library<R>>$", ") -> (r: Result<Library<R>>)", 1, "S")],
             "rewrites": [
                 ("X3s", r"let mut ${DEFS} = HashMap::new\(\);", "let mut ${DEFS} = std_new_defmap();"),
                 ("X3s", r"${EXPORTS}\.extend\(exports\.iter\(\)\)", "std_extend_refs(&mut ${EXPORTS}, exports)"),
                 ("X15", r"self\.eval_import\(imports, ", "self.eval_import(&imports.data, "),
                 ("X6", r"located_error!\(LogicError::UnboundedSymbol\(from\.clone\(\)\), export\.location\)", "unbound_symbol_at(export.location)"),
                 ("L1", r"for declaration in &library_definition\.1 \{", "for declaration in library_definition.1.iter() {"),
             ],
             "loops": {
                 1: {"expect_kw": "for", "iter_name": "it1", "invariant": """            invariant fresh_root(*${ENV}), defs_view(${DEFS}) == Map::<Seq<char>, Value<R>>::empty(),
                it1.seq().len() == library_definition.1@.len(),
                forall|i: int| 0 <= i < library_definition.1@.len() ==> *it1.seq()[i] == library_definition.1@[i],
                refs(${EXPORTS}@) == all_exports(library_definition.1@, it1.index() as int),""",
                     "body_start": "            proof { assert(*declaration == library_definition.1@[it1.index() as int]); }"},
                 2: {"expect_kw": "for", "iter_name": "it2", "invariant": """                        invariant fresh_root(*${ENV}), defs_view(${DEFS}) == Map::<Seq<char>, Value<R>>::empty(),
                            refs(${EXPORTS}@) == all_exports(library_definition.1@, it1.index() as int),"""},
                 3: {"expect_kw": "for", "iter_name": "it3", "invariant": """            invariant fresh_root(*${ENV}),
                refs(it3.seq()) == all_exports(library_definition.1@, library_definition.1@.len() as int),
                all_bound(refs(it3.seq()), *${ENV}, it3.index() as int),
                defs_view(${DEFS}) == exported(refs(it3.seq()), *${ENV}, it3.index() as int),""",
                     "body_start": "            proof { assert(*export == refs(it3.seq())[it3.index() as int]); }"},
             },
             "contract": "        ensures library_post(*library_definition, r),"}}},
    ],
    "spec": "",
}
