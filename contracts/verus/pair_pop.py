# C07 (third mechanism): GenericPair::pop / pop_proper never panic -- an improper list is a reported error.
# Real code under contract: src/parser/pair.rs  GenericPair (enum, Default), PairPopItem, GenericPair::pop,
#                           GenericPair::pop_proper
# The element type T stays abstract (trait Pairable reduced to the one method `pop` uses).

P = "src/parser/pair.rs"

PRELUDE = r'''
// either::Either (external crate): same two constructors (X2, trusted)
pub enum Either<L, R> { Left(L), Right(R) }
#[verifier::external_body] pub struct SchemeError { _p: () }

/// parser/pair.rs trait Pairable, reduced to the method used by this unit (X8); its implementations
/// (macro impl_pairable!) are one-line matches and are not verified here
pub trait Pairable: Sized {
    fn into_pair(self) -> Either<GenericPair<Self>, Self>;
    /// provided method of the real trait (a loop over raw tail pointers): opaque here, no contract assumed
    fn from_pair_iter<It: Iterator<Item = PairIterItem<Self>>>(iter: It) -> Self;
}

pub assume_specification<T: core::default::Default> [core::mem::take] (dest: &mut T) -> (r: T)
    ensures r == *old(dest);
pub assume_specification<T, E> [Option::<Result<T, E>>::transpose] (o: Option<Result<T, E>>) -> (r: Result<Option<T>, E>)
    ensures r == (match o { None => Ok::<Option<T>, E>(None), Some(Ok(x)) => Ok(Some(x)), Some(Err(e)) => Err(e) });

pub uninterp spec fn is_improper_list_error(e: SchemeError) -> bool;
/// error!(SyntaxError::ExpectSomething("proper list".to_string(), "improper list".to_string()))   (X6)
#[verifier::external_body]
pub fn improper_list_error<T>() -> (r: Result<T, SchemeError>)
    ensures r is Err, is_improper_list_error(r->Err_0),
{ unimplemented!() }
'''

UNIT = {
    "props": ["C07"],
    "uses": "use std::mem;",
    "rlimit": 30,
    "trusted": {
        "SchemeError": "opaque type (X2)",
        "take": "std mem::take returns the old value",
        "transpose": "std Option<Result>::transpose",
        "improper_list_error": "X6: error!(SyntaxError::ExpectSomething(..)) builds an error",
    },
    "prelude": PRELUDE,
    "items": [
        {"kind": "enum", "file": P, "name": "GenericPair", "attrs": "#[verifier::reject_recursive_types(T)]"},
        {"kind": "impl", "file": P, "impl": r"^impl<T> Default for GenericPair<T>$", "methods": {"default": {"contract": ""}}},
        {"kind": "enum", "file": P, "name": "PairPopItem"},
        {"kind": "enum", "file": P, "name": "PairIterItem"},
        {"kind": "impl", "file": P, "impl": r"^impl<T: Pairable> GenericPair<T>$",
         "methods": {
             "from_pair_iter": {"props": ["C07"],
                 "sig_rewrites": [("S1", r"-> Result<Self, SchemeError>$", "-> (r: Result<Self, SchemeError>)")],
                 "rewrites": [("X6", r"error!\(SyntaxError::ExpectSomething\(\s*\"proper list\"\.to_string\(\),\s*\"improper list\"\.to_string\(\),?\s*\)\)",
                               "improper_list_error()", 0, "S")],
                 "contract": "        ensures true,"},
             "pop": {"props": ["C07"],
                 "sig_rewrites": [("S1", r"-> Option<PairPopItem<T>>$", "-> (r: Option<PairPopItem<T>>)")],
                 "contract": """        ensures
            *old(self) is Empty <==> r is None,"""},
             "pop_proper": {"props": ["C07"],
                 "sig_rewrites": [("S1", r"-> Result<Option<T>, SchemeError>$", "-> (r: Result<Option<T>, SchemeError>)")],
                 "rewrites": [("X6", r"error!\(SyntaxError::ExpectSomething\(\s*\"proper list\"\.to_string\(\),\s*\"improper list\"\.to_string\(\),?\s*\)\)",
                               "improper_list_error()", 0, "S")],
                 "contract": """        ensures
            // never panics (Verus proves the absence of reachable todo!/unwrap failures); an empty list is Ok(None)
            *old(self) is Empty ==> r == Ok::<Option<T>, SchemeError>(None),"""},
         }},
    ],
    "spec": "",
}
