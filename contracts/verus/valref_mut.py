# C08 / C03 ("literal vectors reject mutation"): ValueReference::as_mut on an Immutable reference is the
# RequiresMutable error and never hands out a mutable view; on a Mutable reference it borrows the cell.
# Real code under contract: src/values.rs  enum ValueReference, ValueReference::as_mut, ValueReference::ptr_eq

V = "src/values.rs"

PRELUDE = r'''
#[verifier::external_type_specification]
#[verifier::external_body]
#[verifier::accept_recursive_types(T)]
pub struct ExRefCell<T: ?Sized>(std::cell::RefCell<T>);
#[verifier::external_type_specification]
#[verifier::external_body]
#[verifier::reject_recursive_types(T)]
pub struct ExRefMut<'b, T: ?Sized + 'b>(std::cell::RefMut<'b, T>);

/// std RefCell::borrow_mut (panics when already borrowed: NOT covered -- dynamic borrow state is not modelled)
pub assume_specification<T: ?Sized>[ std::cell::RefCell::<T>::borrow_mut ](c: &std::cell::RefCell<T>) -> (r: std::cell::RefMut<'_, T>);

#[verifier::external_body] pub struct SchemeError { _p: () }
type Result<T> = core::result::Result<T, SchemeError>;
pub uninterp spec fn is_requires_mutable(e: SchemeError) -> bool;
/// error!(LogicError::RequiresMutable(self.to_string()))   (X6: the message text is dropped, the KIND is kept)
#[verifier::external_body]
pub fn requires_mutable_error<T>() -> (r: Result<T>) ensures r is Err, is_requires_mutable(r->Err_0) { unimplemented!() }

/// identity of a vector object: the address of its reference-counted cell
pub assume_specification<T: ?Sized, A: core::alloc::Allocator>[ Rc::<T, A>::ptr_eq ](a: &Rc<T, A>, b: &Rc<T, A>) -> (r: bool);
'''

UNIT = {
    "props": ["C08", "C03"],
    "header": "#![feature(allocator_api)]",
    "uses": "use std::rc::Rc;\nuse std::cell::{RefCell, RefMut};",
    "rlimit": 30,
    "trusted": {
        "ExRefCell": "std::cell::RefCell as an opaque type (positive in T)", "ExRefMut": "std::cell::RefMut as an opaque type",
        "borrow_mut": "std RefCell::borrow_mut: no contract; its dynamic-borrow panic is NOT covered",
        "SchemeError": "opaque type (X2)", "requires_mutable_error": "X6: error!(LogicError::RequiresMutable(..)) builds an error of that kind",
        "ptr_eq": "std Rc::ptr_eq: no contract needed",
    },
    "prelude": PRELUDE,
    "items": [
        {"kind": "enum", "file": V, "name": "ValueReference"},
        {"kind": "impl", "file": V, "impl": r"^impl<T: Display> ValueReference<Vec<T>>$",
         "header_rewrites": [("X7", r"impl<T: Display> ValueReference<Vec<T>>", "impl<T> ValueReference<Vec<T>>")],
         "methods": {
             "as_mut": {"props": ["C08", "C03"],
                 "sig_rewrites": [("S1", r"-> Result<RefMut<Vec<T>>>$", "-> (r: Result<RefMut<Vec<T>>>)")],
                 "rewrites": [("X6", r"error!\(LogicError::RequiresMutable\(self\.to_string\(\)\)\)", "requires_mutable_error()", 0)],
                 "contract": """        ensures
            *self is Immutable ==> r is Err && is_requires_mutable(r->Err_0),
            *self is Mutable ==> r is Ok,"""},
             "ptr_eq": {"props": ["C03"],
                 "sig_rewrites": [("S1", r"-> bool$", "-> (r: bool)")],
                 "contract": """        ensures
            // a literal (immutable) and a mutable vector are never the same object
            (*self is Immutable) != (*other is Immutable) ==> !r,"""},
         }},
    ],
    "spec": "",
}
