# C01 (top-level definitions): Interpreter::eval_expression_or_definition -- an expression statement yields the value of the
# expression in the frame given; a definition evaluates its expression in that frame and binds the name to exactly that value IN THAT
# FRAME; a syntax definition binds the transformer; anything else is an error.
# Real code under contract: src/interpreter/interpreter.rs  Interpreter::eval_expression_or_definition
# Frames are outside Verus: `define` is a history fact (was_defined), eval_expression the deterministic oracle eval_result.
import importlib.util as _u
import os as _os

_spec = _u.spec_from_file_location("interp_tail_for_toplevel", _os.path.join(_os.path.dirname(__file__), "interp_tail.py"))
_tail = _u.module_from_spec(_spec)
_spec.loader.exec_module(_tail)

I = "src/interpreter/interpreter.rs"
P = "src/parser/parser.rs"

TYPE_ITEMS = [it for it in _tail.UNIT["items"] if it["kind"] in ("struct", "enum", "type")]
_OPAQUE_TRANSFORMER = "#[verifier::external_body] pub struct Transformer { _p: () }\n"
assert _OPAQUE_TRANSFORMER in _tail.PRELUDE

_OPAQUE_INTERP = "#[verifier::external_body] #[verifier::reject_recursive_types(R)]\npub struct Interpreter<'a, R: RealNumberInternalTrait> { _p: core::marker::PhantomData<&'a R> }\n"
assert _OPAQUE_INTERP in _tail.PRELUDE
# the interpreter's root frame is a visible field here (X14: the other fields are dropped), so that code using `self.env` is an
# obligation rather than a build failure
_INTERP = "#[verifier::reject_recursive_types(R)]\npub struct Interpreter<'a, R: RealNumberInternalTrait> { pub env: Rc<Environment<R>>, pub _marker: core::marker::PhantomData<&'a R> }\n"
PRELUDE = _tail.PRELUDE.replace(_OPAQUE_INTERP, _INTERP).replace(_OPAQUE_TRANSFORMER, r'''// parser/macros.rs enum Transformer with opaque payloads (X2): this unit builds Transformer::Scheme(..)
#[verifier::external_body] pub struct NativeTransformerFn { _p: () }       // fn(Datum) -> Result<Datum, SchemeError>
#[verifier::external_body] pub struct UserDefinedTransformer { _p: () }    // macros.rs UserDefinedTransformer
impl Clone for UserDefinedTransformer {
    #[verifier::external_body] fn clone(&self) -> (r: Self) ensures r == *self { unimplemented!() }
}
pub enum Transformer { Native(NativeTransformerFn), Scheme(UserDefinedTransformer) }
#[verifier::external_body] pub struct OpaqueImportDeclaration { _p: () }   // parser.rs ImportDeclaration
#[verifier::external_body] pub struct OpaqueLibraryDefinition { _p: () }   // parser.rs LibraryDefinition
''') + r'''
/// `eval_expression(e, env)` returns eval_result(e, env): a deterministic oracle (its own contracts: units interp_eval*)
pub uninterp spec fn eval_result<R: RealNumberInternalTrait>(e: Expression, env: Environment<R>) -> Result<Value<R>>;
/// history fact: `define(name, value)` was called on this frame
pub uninterp spec fn was_defined<R: RealNumberInternalTrait>(env: Environment<R>, name: Seq<char>, value: Value<R>) -> bool;
impl<R: RealNumberInternalTrait> Environment<R> {
    #[verifier::external_body]
    pub fn define(&self, name: String, value: Value<R>) ensures was_defined(*self, name@, value) { unimplemented!() }
}
impl<'a, R: RealNumberInternalTrait> Interpreter<'a, R> {
    #[verifier::external_body]
    pub fn eval_expression(expression: &Expression, env: &Rc<Environment<R>>) -> (r: Result<Value<R>>)
        ensures r == eval_result(*expression, **env),
    { unimplemented!() }
}
/// error!(SyntaxError::ExpectSomething("expression/definition".to_string(), "other statement".to_string()))   (X6)
#[verifier::external_body]
pub fn statement_error<T>() -> (r: Result<T>) ensures r is Err { unimplemented!() }

/// what evaluating one top-level statement in the frame `env` returns, and what it leaves defined there
pub open spec fn statement_post<R: RealNumberInternalTrait>(s: Statement, env: Rc<Environment<R>>, r: Result<Option<Value<R>>>) -> bool {
    match s {
        Statement::Expression(e) => match eval_result(e, *env) {
            Ok(v) => r == Ok::<Option<Value<R>>, SchemeError>(Some(v)),
            Err(x) => r == Err::<Option<Value<R>>, SchemeError>(x),
        },
        // (define name expr): expr is evaluated in env; the name is bound IN env to exactly that value; no value is printed
        Statement::Definition(d) => match eval_result(d.data.1, *env) {
            Ok(v) => r == Ok::<Option<Value<R>>, SchemeError>(None) && was_defined(*env, d.data.0@, v),
            Err(x) => r == Err::<Option<Value<R>>, SchemeError>(x),
        },
        Statement::SyntaxDefinition(sd) => r == Ok::<Option<Value<R>>, SchemeError>(None)
            && was_defined(*env, sd.data.0@, Value::<R>::Transformer(Transformer::Scheme(sd.data.1))),
        _ => r is Err,
    }
}
'''

UNIT = {
    "props": ["C01"],
    "header": _tail.HEADER,
    "uses": "use std::rc::Rc;\nuse std::marker::PhantomData;",
    "rlimit": 30,
    "trusted": dict(_tail.UNIT["trusted"], **{
        "NativeTransformerFn": "opaque (X2)", "UserDefinedTransformer": "opaque (X2)", "clone": "derive(Clone): structural (trusted)",
        "OpaqueImportDeclaration": "opaque (X2)", "OpaqueLibraryDefinition": "opaque (X2)",
        "define": "LexicalScope::define as a history fact (was_defined); the frame's state is outside Verus",
        "eval_expression": "ASSUMED CONTRACT: deterministic oracle eval_result (its own contracts: units interp_eval*)",
        "statement_error": "X6",
    }),
    "prelude": PRELUDE,
    "items": TYPE_ITEMS + [
        {"kind": "struct", "file": P, "name": "SyntaxDefBody"},
        {"kind": "type", "file": P, "name": "SyntaxDef"},
        {"kind": "enum", "file": P, "name": "Statement", "attrs": "",
         "rewrites": [("X2", r"ImportDeclaration\(Located<ImportDeclaration>\)", "ImportDeclaration(Located<OpaqueImportDeclaration>)", 1),
                      ("X2", r"LibraryDefinition\(Located<LibraryDefinition>\)", "LibraryDefinition(Located<OpaqueLibraryDefinition>)", 1)]},
        {"kind": "impl", "file": I, "impl": r"^impl<'a, R: RealNumberInternalTrait> Interpreter<'a, R>$",
         "methods": {
             "eval_expression_or_definition": {"props": ["C01"],
                 "sig_rewrites": [("S1", r"-> Result<Option<Value<R>>>$", "-> (r: Result<Option<Value<R>>>)")],
                 "rewrites": [("X6", r"error!\(SyntaxError::ExpectSomething\(\s*\"expression/definition\"\.to_string\(\),\s*\"other statement\"\.to_string\(\),?\s*\)\)",
                               "statement_error()", 1, "S")],
                 "contract": "        ensures statement_post(*statement, env, r),"},
         }},
    ],
    "spec": "",
}
