# C08: Interpreter::eval_expression against the same big-step relation as unit interp_eval, with the clause about WHERE an
# error is located switched off (located_at = true): a change that only moves a location breaks C15, not C08.
import importlib.util as _u
import os as _os

_spec = _u.spec_from_file_location("interp_eval_for_kind", _os.path.join(_os.path.dirname(__file__), "interp_eval.py"))
_full = _u.module_from_spec(_spec)
_spec.loader.exec_module(_full)

import copy
UNIT = copy.deepcopy(_full.UNIT)
UNIT["props"] = ['C08', 'C07']
UNIT["prelude"] = _full.PRELUDE_KIND
# the method-level property tags follow the variant (an obligation belongs to the property its clauses are switched on for)
for _it in UNIT["items"]:
    if _it.get("methods"):
        _it["methods"] = {k: (dict(v, props=['C08', 'C07']) if k == "eval_expression" else v) for k, v in _it["methods"].items()}
