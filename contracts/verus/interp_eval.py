# C08 / C15 (and the control skeleton of C01): Interpreter::eval_expression against a big-step relation over the
# expression structure, with procedure application, environment lookup/assignment and literal conversion as parameters.
# Real code under contract: src/interpreter/interpreter.rs  Interpreter::eval_expression
import importlib.util as _u
import os as _os

_spec = _u.spec_from_file_location("interp_tail_for_eval", _os.path.join(_os.path.dirname(__file__), "interp_tail.py"))
_tail = _u.module_from_spec(_spec)
_spec.loader.exec_module(_tail)

I = "src/interpreter/interpreter.rs"
V = "src/values.rs"

TYPE_ITEMS = [it for it in _tail.UNIT["items"] if it["kind"] in ("struct", "enum", "type")
              and it.get("name") not in ("TailExpressionResult", "TailCall")]
_PRE = _tail.PRELUDE
OPAQUE_PRELUDE = _PRE[:_PRE.index("pub assume_specification<T: ?Sized, A: core::alloc::Allocator>")]

PRELUDE_T = OPAQUE_PRELUDE + r'''
pub assume_specification<T: ?Sized, A: core::alloc::Allocator>[ <Box<T, A> as core::convert::AsRef<T>>::as_ref ](b: &Box<T, A>) -> (r: &T)
    ensures r == &**b;

// ---- what this unit does not look into: literals, the environment, procedure application ----
pub uninterp spec fn prim_result<R: RealNumberInternalTrait>(p: Primitive) -> Result<Value<R>>;
pub uninterp spec fn literal_result<R: RealNumberInternalTrait>(d: Datum, env: Rc<Environment<R>>) -> Result<Value<R>>;
/// `apply_procedure(p, args, env)` may return r  (an uninterpreted RELATION: application has effects and need not terminate)
pub uninterp spec fn apply_rel<R: RealNumberInternalTrait>(p: Procedure<R>, args: Seq<Value<R>>, env: Rc<Environment<R>>, r: Result<Value<R>>) -> bool;
pub uninterp spec fn argvec_items<R: RealNumberInternalTrait>(v: ArgVec<R>) -> Seq<Value<R>>;
// error kinds and the location an error carries (SchemeError = Located<ErrorData>, opaque here)
pub uninterp spec fn err_location(e: SchemeError) -> Option<[u32; 2]>;
/*LOCATED_AT*/
/*VAL_CLAUSE*/
/*KIND_CLAUSE*/
pub uninterp spec fn is_unbound_symbol(e: SchemeError) -> bool;
pub uninterp spec fn is_type_mismatch(e: SchemeError) -> bool;
pub uninterp spec fn is_unexpected_expression(e: SchemeError) -> bool;

#[verifier::external_body] #[verifier::reject_recursive_types(R)]
pub struct ValueRef<'a, R: RealNumberInternalTrait> { _p: core::marker::PhantomData<&'a R> }   // cell::Ref<'a, Value<R>>
impl<'a, R: RealNumberInternalTrait> ValueRef<'a, R> {
    #[verifier::external_body] pub fn clone(&self) -> Value<R> { unimplemented!() }
}
impl<R: RealNumberInternalTrait> Environment<R> {
    /// environment.rs LexicalScope::get (RefCell<HashMap<String,_>> frames: outside Verus) -- no contract: `None` is what
    /// "unbound" means to the evaluator
    #[verifier::external_body] pub fn get(&self, name: &str) -> Option<ValueRef<'_, R>> { unimplemented!() }
    /// environment.rs LexicalScope::set -- no contract (its UnboundedSymbol error is produced inside it)
    #[verifier::external_body] pub fn set(&self, name: &str, value: Value<R>) -> Result<()> { unimplemented!() }
}
impl Clone for SchemeProcedure {
    #[verifier::external_body] fn clone(&self) -> (r: Self) ensures r == *self { unimplemented!() }
}
impl<'a, R: RealNumberInternalTrait> Interpreter<'a, R> {
    #[verifier::external_body]
    pub fn eval_primitive(datum: &Primitive) -> (r: Result<Value<R>>) ensures r == prim_result::<R>(*datum) { unimplemented!() }
    #[verifier::external_body]
    pub fn read_literal(datum: &Datum, env: &Rc<Environment<R>>) -> (r: Result<Value<R>>) ensures r == literal_result(*datum, *env) { unimplemented!() }
    #[verifier::external_body]
    pub fn apply_procedure(initial_procedure: &Procedure<R>, args: ArgVec<R>, env: &Rc<Environment<R>>) -> (r: Result<Value<R>>)
        ensures apply_rel(*initial_procedure, argvec_items(args), *env, r)
    { unimplemented!() }
}
/// located_error!(LogicError::TypeMisMatch(other.to_string(), Type::Procedure), loc)   (X6)
#[verifier::external_body]
pub fn type_mismatch_at<T>(loc: Option<[u32; 2]>) -> (r: Result<T>)
    ensures r is Err, is_type_mismatch(r->Err_0), err_location(r->Err_0) == loc { unimplemented!() }
/// located_error!(LogicError::UnexpectedExpression(expression.clone()), loc)   (X6)
#[verifier::external_body]
pub fn unexpected_expression_at<T>(loc: Option<[u32; 2]>) -> (r: Result<T>)
    ensures r is Err, is_unexpected_expression(r->Err_0), err_location(r->Err_0) == loc { unimplemented!() }
/// located_error!(LogicError::UnboundedSymbol(ident.clone()), loc)   (X6)
#[verifier::external_body]
pub fn unbound_symbol_at<T>(loc: Option<[u32; 2]>) -> (r: Result<T>)
    ensures r is Err, is_unbound_symbol(r->Err_0), err_location(r->Err_0) == loc { unimplemented!() }

/// what `.collect::<Result<ArgVec<_>>>()` returned, as a sequence of values
pub open spec fn args_view<R: RealNumberInternalTrait>(r: Result<ArgVec<R>>) -> Result<Seq<Value<R>>> {
    match r { Ok(v) => Ok(argvec_items(v)), Err(e) => Err(e) }
}
/// std `slice.iter().map(f).collect::<Result<ArgVec<_>>>()` through a wrapper (rule X3s; same ASSUMED contract as in interp_tail):
/// f is applied to the elements in order; the values are collected, or the first error is the result
#[verifier::external_body]
pub fn std_map_collect<R: RealNumberInternalTrait, F: Fn(&Expression) -> Result<Value<R>>>(items: &Vec<Expression>, f: F)
    -> (r: Result<ArgVec<R>>)
    requires forall|i: int| 0 <= i < items@.len() ==> #[trigger] f.requires((&items@[i],)),
    ensures obs_args(args_view(r)),
        match args_view(r) {
            Ok(vs) => vs.len() == items@.len()
                && forall|i: int| #![trigger items@[i]] #![trigger vs[i]] 0 <= i < items@.len()
                        ==> f.ensures((&items@[i],), Ok::<Value<R>, SchemeError>(vs[i])),
            Err(e) => exists|j: int| 0 <= j < items@.len() && #[trigger] f.ensures((&items@[j],), Err::<Value<R>, SchemeError>(e)),
        },
{ unimplemented!() }

// ------------------------------------------------------------------------------------------
// Specification: big-step evaluation of the core forms, structurally over the expression
// ------------------------------------------------------------------------------------------
pub open spec fn truthy<R: RealNumberInternalTrait>(v: Value<R>) -> bool { !(v matches Value::Boolean(b) && !b) }

// Trigger carriers.  Both are `true`: they only give the solver a NON-recursive term that mentions the result of a
// sub-evaluation, so that the existential witnesses below can be found (a trigger on the recursive eval_sem itself is
// never matched: the unfolded definition mentions eval_sem at a different fuel than the callee's postcondition does).
pub open spec fn obs<R: RealNumberInternalTrait>(e: Expression, env: Rc<Environment<R>>, r: Result<Value<R>>) -> bool { true }
pub open spec fn obs_args<R: RealNumberInternalTrait>(ar: Result<Seq<Value<R>>>) -> bool { true }
/// THE CONTRACT of eval_expression: it returned r  ==>  r is a result the big-step relation allows
pub open spec fn evaluates<R: RealNumberInternalTrait>(e: Expression, env: Rc<Environment<R>>, r: Result<Value<R>>) -> bool {
    obs(e, env, r) && eval_sem(e, env, r)
}

pub open spec fn eval_sem<R: RealNumberInternalTrait>(e: Expression, env: Rc<Environment<R>>, r: Result<Value<R>>) -> bool
    decreases e
{
    match e.data {
        ExpressionBody::Primitive(p) => val(r == prim_result::<R>(p)),
        ExpressionBody::Datum(d) => val(r == literal_result(d, env)),
        ExpressionBody::Quote(d) => val(r == literal_result(*d, env)),
        // C08 / C15: reading an unbound variable is the UnboundedSymbol error, located AT THE IDENTIFIER
        ExpressionBody::Symbol(_) => r is Ok || (kind(is_unbound_symbol(r->Err_0)) && located_at(r->Err_0, e.location)),
        ExpressionBody::Period => r is Err && kind(is_unexpected_expression(r->Err_0)) && located_at(r->Err_0, e.location),
        // a lambda expression closes over the CURRENT frame
        ExpressionBody::Procedure(scheme) => val(r == Ok::<Value<R>, SchemeError>(Value::Procedure(Procedure::User(scheme, env)))),
        // set!: the value is evaluated first; its error is passed on; otherwise Void or the error of the assignment itself
        ExpressionBody::Assignment(_, value_expr) => exists|vr: Result<Value<R>>| #[trigger] obs(*value_expr, env, vr) && eval_sem(*value_expr, env, vr) && match vr {
            Err(e0) => r == Err::<Value<R>, SchemeError>(e0),
            Ok(_) => r == Ok::<Value<R>, SchemeError>(Value::Void) || r is Err,
        },
        // if: only the test and the selected arm are evaluated; only #f selects the alternative
        ExpressionBody::Conditional(c) => {
            let (test, consequent, alternative) = *c;
            exists|tr: Result<Value<R>>| #[trigger] obs(test, env, tr) && eval_sem(test, env, tr) && match tr {
                Err(e0) => r == Err::<Value<R>, SchemeError>(e0),
                // (with the value clauses switched off -- units interp_eval / interp_eval_kind -- r is the result of ONE of the arms)
                Ok(tv) => (val(truthy(tv)) && eval_sem(consequent, env, r)) || (val(!truthy(tv)) && match alternative {
                        Some(alt) => eval_sem(alt, env, r),
                        None => val(r == Ok::<Value<R>, SchemeError>(Value::Void)),
                    }),
            }
        }
        // call: operator, then operands; C08 / C15: a non-procedure operator is the TypeMisMatch error located AT THE OPERATOR;
        // otherwise an operand's error is passed on, otherwise the procedure is applied to exactly the operands' values
        ExpressionBody::ProcedureCall(pe, args) => exists|fr: Result<Value<R>>| #[trigger] obs(*pe, env, fr) && eval_sem(*pe, env, fr) && match fr {
            Err(e0) => r == Err::<Value<R>, SchemeError>(e0),
            Ok(first) => exists|ar: Result<Seq<Value<R>>>| #[trigger] obs_args(ar)
                // the operands evaluated to ar: every operand's value, in order, or the error of one of them
                && (match ar {
                    Ok(vs) => vs.len() == args@.len() && forall|i: int| #![trigger args@[i]] 0 <= i < args@.len()
                        ==> eval_sem(args@[i], env, Ok::<Value<R>, SchemeError>(vs[i])),
                    Err(e1) => exists|j: int| #![trigger args@[j]] 0 <= j < args@.len()
                        && eval_sem(args@[j], env, Err::<Value<R>, SchemeError>(e1)),
                })
                && match first {
                Value::Procedure(p) => match ar {
                    Err(e1) => r == Err::<Value<R>, SchemeError>(e1),
                    Ok(vs) => apply_rel(p, vs, env, r),
                },
                _ => r is Err && kind(is_type_mismatch(r->Err_0)) && located_at(r->Err_0, pe.location),
            },
        },
    }
}
'''

LOCATED_FULL = """/// C15: the location an error carries
pub open spec fn located_at(e: SchemeError, loc: Option<[u32; 2]>) -> bool { err_location(e) == loc }"""
LOCATED_KIND = """/// unit interp_eval_kind (C08) decides the KIND of the error only: where it is located is C15's business (unit interp_eval)
pub open spec fn located_at(e: SchemeError, loc: Option<[u32; 2]>) -> bool { true }"""
_ON = "pub open spec fn %s(b: bool) -> bool { b }"
_OFF = "pub open spec fn %s(b: bool) -> bool { true }"
def _variant(located, val, kind):
    return (PRELUDE_T.replace("/*LOCATED_AT*/", located)
            .replace("/*VAL_CLAUSE*/", "/// the clauses about WHICH VALUE an expression has (C01): " + ("on" if val else "off in this unit") + "\n" + (_ON if val else _OFF) % "val")
            .replace("/*KIND_CLAUSE*/", "/// the clauses about WHICH KIND of error is raised (C08): " + ("on" if kind else "off in this unit") + "\n" + (_ON if kind else _OFF) % "kind"))
# one obligation belongs to one property: C15 = where an error is located; C08 = which kind it is; C01 = which value is computed
PRELUDE = _variant(LOCATED_FULL, False, False)
PRELUDE_KIND = _variant(LOCATED_KIND, False, True)
PRELUDE_VALUE = _variant(LOCATED_KIND, True, False)

UNIT = {
    "props": ["C15", "C07"],
    "header": _tail.HEADER,
    "uses": "use std::rc::Rc;\nuse std::marker::PhantomData;",
    "rlimit": 40,
    "trusted": dict(_tail.UNIT["trusted"], **{
        "ValueRef": "opaque type (X2): cell::Ref<Value<R>>", "clone": "Ref<Value>::clone / derive(Clone) on SchemeProcedure (structural, trusted)",
        "get": "LexicalScope::get: no contract", "set": "LexicalScope::set: no contract",
        "eval_primitive": "CONTRACT PROVED IN UNIT interp_tail (here only: a function of the literal)",
        "read_literal": "a function of the datum and the frame (recursive over quoted data; not verified)",
        "apply_procedure": "the uninterpreted relation apply_rel (its own contracts are proved in unit interp_tail)",
        "type_mismatch_at": "X6", "unexpected_expression_at": "X6", "unbound_symbol_at": "X6",
        "std_map_collect": "ASSUMED (std): slice.iter().map(f).collect::<Result<_>>() applies f in order and stops at the first Err",
    }),
    "prelude": PRELUDE,
    "items": TYPE_ITEMS + [
        {"kind": "impl", "file": V, "impl": r"^impl<R: RealNumberInternalTrait> Value<R>$",
         "methods": {"as_boolean": {"props": ["C02"],
             "sig_rewrites": [("S1", r"-> bool$", "-> (r: bool)")],
             "contract": "        ensures r == truthy(*self),"}}},
        {"kind": "impl", "file": I, "impl": r"^impl<'a, R: RealNumberInternalTrait> Interpreter<'a, R>$",
         "methods": {
             "eval_expression": {"props": ["C15", "C07"],
                 "attrs": "#[verifier::exec_allows_no_decreases_clause]",
                 "sig_rewrites": [("S1", r"-> Result<Value<R>>$", "-> (r: Result<Value<R>>)")],
                 "rewrites": [
                     # X12: `let &PAT = &EXPR;` -> `let PAT = EXPR;` (Verus: "ref patterns"); the pattern's `&` cancels the borrow
                     ("X12", r"let &\(test, consequent, alternative\) = &cond\.as_ref\(\);", "let (test, consequent, alternative) = cond.as_ref();"),
                     ("X6", r"located_error!\(\s*LogicError::TypeMisMatch\(\w+\.to_string\(\), Type::Procedure\),\s*([\w\.]+)\s*\)", r"type_mismatch_at(\1)", 0, "S"),
                     ("X6", r"located_error!\(\s*LogicError::UnexpectedExpression\(expression\.clone\(\)\),\s*([\w\.]+)\s*\)", r"unexpected_expression_at(\1)", 0, "S"),
                     ("X6", r"located_error!\(\s*LogicError::UnboundedSymbol\(ident\.clone\(\)\),\s*([\w\.]+)\s*\)", r"unbound_symbol_at(\1)", 0, "S"),
                     ("X3s", r"arguments\s*\.iter\(\)\s*\.map\(\|(\w+)\| Self::eval_expression\(\1, env\)\)\s*\.collect\(\)",
                      "std_map_collect(arguments, |arg: &Expression| -> (o: Result<Value<R>>) ensures evaluates(*arg, *env, o) "
                      "{ Self::eval_expression(arg, env) })", 0, "S"),
                 ],
                 "contract": "        ensures evaluates(*expression, *env, r),"},
         }},
    ],
    "spec": "",
}
