# C15 (fourth mechanism): Interpreter::eval_ast never overwrites an accurate inner error location and fills a
# missing one with the statement's own location; successful results pass through.
# Real code under contract: src/interpreter/interpreter.rs Interpreter::eval_ast; src/error.rs Located, ToLocated

I = "src/interpreter/interpreter.rs"
E = "src/error.rs"

PRELUDE = r'''
pub trait RealNumberInternalTrait: Sized {}
#[verifier::external_body] pub struct ErrorData { _p: () }
#[verifier::external_body] pub struct Statement { _p: () }
#[verifier::external_body] #[verifier::reject_recursive_types(R)]
pub struct Value<R: RealNumberInternalTrait> { _p: core::marker::PhantomData<R> }
#[verifier::external_body] #[verifier::reject_recursive_types(R)]
pub struct Environment<R: RealNumberInternalTrait> { _p: core::marker::PhantomData<R> }
#[verifier::external_body] #[verifier::reject_recursive_types(R)]
pub struct Interpreter<'a, R: RealNumberInternalTrait> { _p: core::marker::PhantomData<&'a R> }
pub type SchemeError = Located<ErrorData>;
pub type Result<T> = core::result::Result<T, SchemeError>;
impl ToLocated for ErrorData {}

/// the statement's own source location (parser.rs Statement::location)
pub uninterp spec fn stmt_location(s: Statement) -> Option<[u32; 2]>;
/// oracle for the opaque evaluation of one statement
pub uninterp spec fn inner_result<'a, R: RealNumberInternalTrait>(it: Interpreter<'a, R>, ast: Statement, env: Rc<Environment<R>>)
    -> Result<Option<Value<R>>>;

impl Statement {
    #[verifier::external_body]
    pub fn location(&self) -> (r: Option<[u32; 2]>) ensures r == stmt_location(*self) { unimplemented!() }
}
pub open spec fn or_spec<T>(a: Option<T>, b: Option<T>) -> Option<T> {
    if a is Some { a } else { b }
}
pub assume_specification<T>[ Option::<T>::or ](a: Option<T>, b: Option<T>) -> (r: Option<T>)
    ensures r == or_spec(a, b);
'''

UNIT = {
    "props": ["C15"],
    "uses": "use std::rc::Rc;",
    "rlimit": 30,
    "trusted": {
        "ErrorData": "opaque type (X2)", "Statement": "opaque type (X2)", "Value": "opaque type (X2)",
        "Environment": "opaque type (X2)", "Interpreter": "opaque type (X2)",
        "location": "ASSUMED CONTRACT: Statement::location is the uninterpreted stmt_location",
        "or": "std Option::or",
        "eval_ast_error_no_location": "ASSUMED CONTRACT: functional oracle inner_result for the opaque evaluation of a statement",
    },
    "prelude": PRELUDE,
    "items": [
        {"kind": "struct", "file": E, "name": "Located"},
        {"kind": "trait", "file": E, "name": "ToLocated", "keep_others": True,
         "methods": {"locate": {"props": ["C15"],
             "sig_rewrites": [("S1", r"-> Located<Self>(?=\s+where)", "-> (r: Located<Self>)")],
             "contract": "        ensures r.data == self, r.location == location,"}}},
        {"kind": "impl", "file": I, "impl": r"^impl<'a, R: RealNumberInternalTrait> Interpreter<'a, R>$",
         "methods": {
             "eval_ast_error_no_location": {"drop_body": True,
                 "sig_rewrites": [("S1", r"-> Result<Option<Value<R>>>$", "-> (r: Result<Option<Value<R>>>)")],
                 "contract": "        ensures r == inner_result(*old(self), *ast, env),"},
             "eval_ast": {"props": ["C15"],
                 "sig_rewrites": [("S1", r"-> Result<Option<Value<R>>>$", "-> (r: Result<Option<Value<R>>>)")],
                 "contract": """        ensures
            match inner_result(*old(self), *ast, env) {
                Ok(v) => r == Ok::<Option<Value<R>>, SchemeError>(v),
                // an accurate inner location is kept; a missing one becomes the statement's location
                Err(e) => r matches Err(f) && f.data == e.data && f.location == or_spec(e.location, stmt_location(*ast)),
            },"""},
         }},
    ],
    "spec": "",
}
