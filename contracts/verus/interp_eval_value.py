# C01 (control skeleton): Interpreter::eval_expression against the same big-step relation as units interp_eval (C15) and
# interp_eval_kind (C08), with the clauses about WHICH VALUE an expression has switched ON and the clauses about the kind and the
# location of errors switched off: `if` evaluates the test and exactly the selected arm and only #f selects the alternative; a call
# evaluates the operator, then every operand, and applies the procedure to exactly the operands' values; a lambda expression closes
# over the current frame; a literal / quoted datum is what read_literal / eval_primitive give (unit interp_literal).
import importlib.util as _u
import os as _os

_spec = _u.spec_from_file_location("interp_eval_for_value", _os.path.join(_os.path.dirname(__file__), "interp_eval.py"))
_full = _u.module_from_spec(_spec)
_spec.loader.exec_module(_full)

import copy
UNIT = copy.deepcopy(_full.UNIT)
UNIT["props"] = ['C01']
UNIT["prelude"] = _full.PRELUDE_VALUE
# the method-level property tags follow the variant (an obligation belongs to the property its clauses are switched on for)
for _it in UNIT["items"]:
    if _it.get("methods"):
        _it["methods"] = {k: dict(v, props=['C01']) for k, v in _it["methods"].items()}
