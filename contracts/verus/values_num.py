# C09 / C10 / C08(division) / C07(arithmetic): the numeric tower of src/values.rs, for ALL i32 operands
# and for an ABSTRACT inexact type R (so the contagion clause is proved for every R, by congruence).
#
# Real code under contract (bodies byte-identical to the snapshot):
#   upcast_oprands, NumberBinaryOperand::{lhs,rhs}, Add/Sub/Mul/Div::{add,sub,mul,div} for Number,
#   Number::{from_ratio, abs, floor, ceiling, floor_quotient, exact_eqv}, PartialEq::eq,
#   PartialOrd::partial_cmp, check_division_by_zero.

PRELUDE = r'''
// ------------------------------------------------------------------------------------------
// Prelude (rules X2/X3/X7): the inexact type R is abstract.  num_traits::{NumCast,ToPrimitive,
// real::Real} are external; this local trait declares exactly the operations values.rs uses on
// R, each with an *uninterpreted* specification function, so that "the IEEE operation on the
// converted operands" is expressed as the application of R's own operation to R's own
// conversion of the operands.  (At R = f32 the conversion is checked to be `as f32` by Kani.)
// ------------------------------------------------------------------------------------------
pub trait ToPrimitive: Sized {
    spec fn to_int(self) -> int;
}
impl ToPrimitive for i32 { open spec fn to_int(self) -> int { self as int } }
impl ToPrimitive for i64 { open spec fn to_int(self) -> int { self as int } }

pub trait RealNumberInternalTrait: Copy + Sized
    + core::ops::Add<Output = Self> + core::ops::Sub<Output = Self>
    + core::ops::Mul<Output = Self> + core::ops::Div<Output = Self>
    + PartialEq + PartialOrd
{
    spec fn of_int(n: int) -> Self;
    spec fn abs_spec(self) -> Self;
    spec fn floor_spec(self) -> Self;
    spec fn ceil_spec(self) -> Self;

    fn from<T: ToPrimitive>(n: T) -> (r: Option<Self>)
        ensures r == Some(Self::of_int(n.to_int()));
    fn abs(self) -> (r: Self) ensures r == self.abs_spec();
    fn floor(self) -> (r: Self) ensures r == self.floor_spec();
    fn ceil(self) -> (r: Self) ensures r == self.ceil_spec();

    /// TRUSTED (stated, not proved): R's arithmetic and comparison operators never panic and are
    /// functions of their operands -- true of f32/f64.
    proof fn real_ops_are_total_functions()
        ensures
            Self::obeys_add_spec(), Self::obeys_sub_spec(), Self::obeys_mul_spec(), Self::obeys_div_spec(),
            Self::obeys_eq_spec(), Self::obeys_partial_cmp_spec(),
            forall|a: Self, b: Self| #[trigger] a.add_req(b),
            forall|a: Self, b: Self| #[trigger] a.sub_req(b),
            forall|a: Self, b: Self| #[trigger] a.mul_req(b),
            forall|a: Self, b: Self| #[trigger] a.div_req(b);
}
'''

SPEC = r'''
// ------------------------------------------------------------------------------------------
// Specification vocabulary (taken from the statement of C09 / C10, not from the code)
// ------------------------------------------------------------------------------------------
pub open spec fn is_exact<R: RealNumberInternalTrait>(n: Number<R>) -> bool { !(n is Real) }

/// representation invariant: a ratio has a positive denominator
pub open spec fn wf<R: RealNumberInternalTrait>(n: Number<R>) -> bool {
    match n { Number::Rational(_, b) => b > 0, _ => true }
}
pub open spec fn numer<R: RealNumberInternalTrait>(n: Number<R>) -> int {
    match n { Number::Integer(a) => a as int, Number::Rational(a, _) => a as int, Number::Real(_) => 0 }
}
pub open spec fn denom<R: RealNumberInternalTrait>(n: Number<R>) -> int {
    match n { Number::Integer(_) => 1, Number::Rational(_, b) => b as int, Number::Real(_) => 1 }
}
/// the operand class for which the statement promises an exact result
pub open spec fn small<R: RealNumberInternalTrait>(n: Number<R>) -> bool {
    -0x8000 < numer(n) < 0x8000 && -0x8000 < denom(n) < 0x8000
}
/// conversion of an operand to the inexact type, as the statement prescribes
pub open spec fn conv<R: RealNumberInternalTrait>(n: Number<R>) -> R {
    match n {
        Number::Integer(a) => R::of_int(a as int),
        Number::Rational(a, b) => R::of_int(a as int).div_spec(R::of_int(b as int)),
        Number::Real(r) => r,
    }
}
pub open spec fn i32r(x: int) -> bool { -0x8000_0000 <= x <= 0x7fff_ffff }
/// the unreduced result n/d (d > 0) is representable as an exact number
pub open spec fn fits(n: int, d: int) -> bool { -0x8000_0000 < n < 0x8000_0000 && 0 < d < 0x8000_0000 }
/// the exact number r is represented no larger than the unreduced fraction n/d
pub open spec fn size_le<R: RealNumberInternalTrait>(r: Number<R>, n: int, d: int) -> bool {
    abs_int(numer(r)) <= abs_int(n) && denom(r) <= abs_int(d)
}
/// q is the greatest integer not above the exact number x
pub open spec fn is_floor<R: RealNumberInternalTrait>(q: int, x: Number<R>) -> bool {
    q * denom(x) <= numer(x) < (q + 1) * denom(x)
}
pub open spec fn is_ceiling<R: RealNumberInternalTrait>(q: int, x: Number<R>) -> bool {
    (q - 1) * denom(x) < numer(x) <= q * denom(x)
}
/// q is the greatest integer not above n/d  (n, d exact, positive denominators, d != 0)
pub open spec fn is_floor_of_quotient<R: RealNumberInternalTrait>(q: int, n: Number<R>, d: Number<R>) -> bool {
    let nn = numer(n) * denom(d);
    let dd = denom(n) * numer(d);
    if dd > 0 { q * dd <= nn < (q + 1) * dd } else { q * dd >= nn > (q + 1) * dd }
}

/// r = x + s*y  as rationals
pub open spec fn is_sum<R: RealNumberInternalTrait>(r: Number<R>, x: Number<R>, y: Number<R>, s: int) -> bool {
    numer(r) * (denom(x) * denom(y)) == (numer(x) * denom(y) + s * (denom(x) * numer(y))) * denom(r)
}
pub open spec fn is_product<R: RealNumberInternalTrait>(r: Number<R>, x: Number<R>, y: Number<R>) -> bool {
    numer(r) * (denom(x) * denom(y)) == (numer(x) * numer(y)) * denom(r)
}
pub open spec fn is_quotient<R: RealNumberInternalTrait>(r: Number<R>, x: Number<R>, y: Number<R>) -> bool {
    numer(r) * (denom(x) * numer(y)) == (numer(x) * denom(y)) * denom(r)
}
/// mathematical order / equality of two exact numbers with positive denominators
pub open spec fn q_lt<R: RealNumberInternalTrait>(x: Number<R>, y: Number<R>) -> bool { numer(x) * denom(y) < numer(y) * denom(x) }
pub open spec fn q_eq<R: RealNumberInternalTrait>(x: Number<R>, y: Number<R>) -> bool { numer(x) * denom(y) == numer(y) * denom(x) }

/// the one case of the known finding: an Integer against a numerically equal Rational
pub open spec fn mixed_int_ratio_equal<R: RealNumberInternalTrait>(x: Number<R>, y: Number<R>) -> bool {
    ((x is Integer && y is Rational) || (x is Rational && y is Integer)) && q_eq(x, y)
}
pub open spec fn is_div_by_zero<T>(r: Result<T>) -> bool {
    r is Err && r->Err_0.data == ErrorData::Logic(LogicError::DivisionByZero)
}

/// `=` on numbers, total: exact operands are compared by cross-multiplication (which IS equality of the
/// rationals when the denominators are positive), otherwise R's own == on the converted operands
pub open spec fn num_eq_spec<R: RealNumberInternalTrait>(x: Number<R>, y: Number<R>) -> bool {
    if is_exact(x) && is_exact(y) { q_eq(x, y) } else { conv(x).eq_spec(&conv(y)) }
}
/// the three-way comparison of numbers, total (same convention)
pub open spec fn num_cmp_spec<R: RealNumberInternalTrait>(x: Number<R>, y: Number<R>) -> Option<Ordering> {
    if is_exact(x) && is_exact(y) {
        Some(if q_lt(x, y) { Ordering::Less } else if q_eq(x, y) { Ordering::Equal } else { Ordering::Greater })
    } else {
        conv(x).partial_cmp_spec(&conv(y))
    }
}
// Number OBEYS these specifications: that is what links the derived operators `<`, `<=`, `>`, `>=`, `==`, `!=`
// (std default methods, specified by vstd in terms of partial_cmp_spec / eq_spec) to the proved comparison
impl<R: RealNumberInternalTrait> vstd::std_specs::cmp::PartialEqSpecImpl<Number<R>> for Number<R> {
    open spec fn obeys_eq_spec() -> bool { true }
    open spec fn eq_spec(&self, other: &Number<R>) -> bool { num_eq_spec(*self, *other) }
}
impl<R: RealNumberInternalTrait> vstd::std_specs::cmp::PartialOrdSpecImpl<Number<R>> for Number<R> {
    open spec fn obeys_partial_cmp_spec() -> bool { true }
    open spec fn partial_cmp_spec(&self, other: &Number<R>) -> Option<Ordering> { num_cmp_spec(*self, *other) }
}
// operator contracts that a trait impl cannot carry as `requires` (Verus: AddSpecImpl & co.)
impl<R: RealNumberInternalTrait> vstd::std_specs::ops::AddSpecImpl<Number<R>> for Number<R> {
    open spec fn obeys_add_spec() -> bool { false }
    open spec fn add_req(self, rhs: Number<R>) -> bool { wf(self) && wf(rhs) }
    open spec fn add_spec(self, rhs: Number<R>) -> Number<R> { arbitrary() }
}
impl<R: RealNumberInternalTrait> vstd::std_specs::ops::SubSpecImpl<Number<R>> for Number<R> {
    open spec fn obeys_sub_spec() -> bool { false }
    open spec fn sub_req(self, rhs: Number<R>) -> bool { wf(self) && wf(rhs) }
    open spec fn sub_spec(self, rhs: Number<R>) -> Number<R> { arbitrary() }
}
impl<R: RealNumberInternalTrait> vstd::std_specs::ops::MulSpecImpl<Number<R>> for Number<R> {
    open spec fn obeys_mul_spec() -> bool { false }
    open spec fn mul_req(self, rhs: Number<R>) -> bool { wf(self) && wf(rhs) }
    open spec fn mul_spec(self, rhs: Number<R>) -> Number<R> { arbitrary() }
}
impl<R: RealNumberInternalTrait> vstd::std_specs::ops::DivSpecImpl<Number<R>> for Number<R> {
    open spec fn obeys_div_spec() -> bool { false }
    open spec fn div_req(self, rhs: Number<R>) -> bool { wf(self) && wf(rhs) }
    open spec fn div_spec(self, rhs: Number<R>) -> Result<Number<R>> { arbitrary() }
}

// ------------------------------------------------------------------------------------------
// Lemmas (nonlinear integer arithmetic; the solver does none of this unprompted)
// ------------------------------------------------------------------------------------------
pub open spec fn abs_int(x: int) -> int { if x < 0 { -x } else { x } }

proof fn lemma_euc(a: int, b: int)
    requires b != 0
    ensures a == b * (a / b) + a % b, 0 <= a % b < abs_int(b),
{
    assert(a == b * (a / b) + a % b && 0 <= a % b < abs_int(b)) by(nonlinear_arith) requires b != 0;
}
proof fn lemma_euc_pos(a: int, b: int, q: int, r: int)
    requires b != 0, a > 0, a == b * q + r, 0 <= r < abs_int(b)
    ensures 0 <= b * q <= a, abs_int(q) * abs_int(b) <= a,
{
    if q == 0 { assert(abs_int(q) * abs_int(b) == 0) by(nonlinear_arith) requires q == 0; } else {
        assert(abs_int(b * q) >= abs_int(b)) by(nonlinear_arith) requires q != 0, b != 0;
        if b * q < 0 { assert(false); }
        assert(abs_int(q) * abs_int(b) == abs_int(b * q)) by(nonlinear_arith);
    }
}

pub proof fn lemma_rust_div_rem(a: int, b: int)
    requires b != 0
    ensures
        rust_div(a, b) * b + rust_rem(a, b) == a,
        abs_int(rust_rem(a, b)) < abs_int(b),
        a >= 0 ==> rust_rem(a, b) >= 0,
        a <= 0 ==> rust_rem(a, b) <= 0,
        abs_int(rust_div(a, b)) <= abs_int(a),
        abs_int(rust_div(a, b)) * abs_int(b) <= abs_int(a),
{
    reveal(rust_div); reveal(rust_rem);
    if a > 0 {
        lemma_euc(a, b);
        let q = a / b; let r = a % b;
        lemma_euc_pos(a, b, q, r);
        assert(q * b + r == a) by(nonlinear_arith) requires a == b * q + r;
        assert(abs_int(q) <= a) by(nonlinear_arith) requires abs_int(q) * abs_int(b) <= a, abs_int(b) >= 1, abs_int(q) >= 0;
    } else if a < 0 {
        lemma_euc(-a, b);
        let q = (-a) / b; let r = (-a) % b;
        lemma_euc_pos(-a, b, q, r);
        assert((-q) * b + (-r) == a) by(nonlinear_arith) requires -a == b * q + r;
        assert(abs_int(q) <= -a) by(nonlinear_arith) requires abs_int(q) * abs_int(b) <= -a, abs_int(b) >= 1, abs_int(q) >= 0;
        assert(abs_int(-q) == abs_int(q));
    } else {
        assert(abs_int(0) * abs_int(b) == 0) by(nonlinear_arith);
    }
}
pub proof fn lemma_trunc_strict(a: int, b: int)
    requires b != 0, rust_div(a, b) * b != a
    ensures abs_int(rust_div(a, b)) < abs_int(a)
{
    lemma_rust_div_rem(a, b);
    let q = rust_div(a, b); let r = rust_rem(a, b);
    assert(r != 0);
    assert(abs_int(b) >= 2);
    assert(abs_int(q) < abs_int(a)) by(nonlinear_arith)
        requires abs_int(q) * abs_int(b) <= abs_int(a), abs_int(b) >= 2, abs_int(q) >= 0, abs_int(a) >= 0, a != 0 || q == 0, q * b != a;
}

proof fn lemma_floor_of_quotient<R: RealNumberInternalTrait>(q: int, z: Number<R>, n: Number<R>, d: Number<R>)
    requires
        is_exact(z), wf(z), is_exact(n), is_exact(d), wf(n), wf(d), numer(d) != 0,
        is_quotient(z, n, d), is_floor(q, z),
    ensures is_floor_of_quotient(q, n, d)
{
    let zn = numer(z); let zd = denom(z);
    let nn = numer(n) * denom(d); let dd = denom(n) * numer(d);
    assert(dd != 0) by(nonlinear_arith) requires dd == denom(n) * numer(d), denom(n) > 0, numer(d) != 0;
    assert(zn * dd == nn * zd);
    if dd > 0 {
        assert(q * dd <= nn) by(nonlinear_arith) requires zn * dd == nn * zd, q * zd <= zn, zd > 0, dd > 0;
        assert(nn < (q + 1) * dd) by(nonlinear_arith) requires zn * dd == nn * zd, zn < (q + 1) * zd, zd > 0, dd > 0;
    } else {
        assert(q * dd >= nn) by(nonlinear_arith) requires zn * dd == nn * zd, q * zd <= zn, zd > 0, dd < 0;
        assert(nn > (q + 1) * dd) by(nonlinear_arith) requires zn * dd == nn * zd, zn < (q + 1) * zd, zd > 0, dd < 0;
    }
}

pub open spec fn sm(x: int) -> bool { -0x8000 < x < 0x8000 }
pub open spec fn floor_rel(q: int, nn: int, dd: int) -> bool {
    if dd > 0 { q * dd <= nn < (q + 1) * dd } else { q * dd >= nn > (q + 1) * dd }
}
proof fn lemma_floor_gap(q: int, nn: int, dd: int)
    requires dd != 0, floor_rel(q, nn, dd)
    ensures abs_int(nn - q * dd) < abs_int(dd), dd > 0 ==> 0 <= nn - q * dd, dd < 0 ==> nn - q * dd <= 0
{
    assert((q + 1) * dd == q * dd + dd) by(nonlinear_arith);
}
// A: the product q * d fits
proof fn lemma_fr_a(a1: int, a2: int, b1: int, b2: int, q: int)
    requires sm(a1), sm(a2), sm(b1), sm(b2), a2 > 0, b2 > 0, b1 != 0, floor_rel(q, a1 * b2, a2 * b1)
    ensures -0x8000_0000 < q * b1 < 0x8000_0000
{
    let nn = a1 * b2; let dd = a2 * b1;
    assert(dd != 0) by(nonlinear_arith) requires dd == a2 * b1, a2 > 0, b1 != 0;
    lemma_floor_gap(q, nn, dd);
    assert(abs_int(nn) < 0x4000_0000) by(nonlinear_arith) requires nn == a1 * b2, sm(a1), sm(b2);
    assert(abs_int(dd) < 0x4000_0000) by(nonlinear_arith) requires dd == a2 * b1, sm(a2), sm(b1);
    // |q*dd| < |nn| + |dd|
    assert(abs_int(q * dd) < 0x8000_0000);
    assert(q * dd == (q * b1) * a2) by(nonlinear_arith) requires dd == a2 * b1;
    assert(abs_int(q * b1) <= abs_int((q * b1) * a2)) by(nonlinear_arith) requires a2 >= 1;
}
// B: the difference n - q*d fits
proof fn lemma_fr_b(a1: int, a2: int, b1: int, b2: int, q: int, pn: int, pd: int)
    requires sm(a1), sm(a2), sm(b1), sm(b2), a2 > 0, b2 > 0, b1 != 0, floor_rel(q, a1 * b2, a2 * b1),
        pd > 0, pd <= b2, pn * b2 == (q * b1) * pd
    ensures -0x8000_0000 < a1 * pd - a2 * pn < 0x8000_0000, 0 < a2 * pd < 0x8000_0000
{
    let nn = a1 * b2; let dd = a2 * b1;
    assert(dd != 0) by(nonlinear_arith) requires dd == a2 * b1, a2 > 0, b1 != 0;
    lemma_floor_gap(q, nn, dd);
    let np = a1 * pd - a2 * pn;
    let t = pn * b2;
    assert(np * b2 == (a1 * pd) * b2 - a2 * t) by(nonlinear_arith)
        requires np == a1 * pd - a2 * pn, t == pn * b2;
    let u = q * b1;
    assert(t == u * pd);
    assert(a2 * t == pd * (u * a2)) by(nonlinear_arith) requires t == u * pd;
    assert((a1 * pd) * b2 == pd * (a1 * b2)) by(nonlinear_arith);
    assert(u * a2 == q * (a2 * b1)) by(nonlinear_arith) requires u == q * b1;
    assert(pd * (a1 * b2) - pd * (q * (a2 * b1)) == pd * (a1 * b2 - q * (a2 * b1))) by(nonlinear_arith);
    assert(np * b2 == pd * (nn - q * dd));
    let g = nn - q * dd;
    assert(abs_int(dd) < 0x4000_0000) by(nonlinear_arith) requires dd == a2 * b1, sm(a2), sm(b1);
    // |np| * b2 = pd * |g| < b2 * |dd|
    assert(abs_int(np) < abs_int(dd)) by(nonlinear_arith)
        requires np * b2 == pd * g, abs_int(g) < abs_int(dd), 0 < pd <= b2, b2 > 0;
    assert(0 < a2 * pd < 0x8000_0000) by(nonlinear_arith) requires 0 < a2 < 0x8000, 0 < pd <= b2, b2 < 0x8000;
}
// C: n = d*q + r
proof fn lemma_fr_c(a1: int, a2: int, b1: int, b2: int, q: int, pn: int, pd: int, rn: int, rd: int)
    requires a2 > 0, b2 > 0, pd > 0, pn * b2 == (q * b1) * pd,
        rn * (a2 * pd) == (a1 * pd + (-1) * (a2 * pn)) * rd
    ensures a1 * b2 * rd == (b1 * q * rd + rn * b2) * a2
{
    let u = q * b1;            // pn * b2 == u * pd
    let np = a1 * pd - a2 * pn; // rn * (a2 * pd) == np * rd
    assert(a1 * pd + (-1) * (a2 * pn) == np);
    // np * b2 == pd * (a1*b2 - a2*u)
    let t = pn * b2;
    assert(np * b2 == (a1 * pd) * b2 - a2 * t) by(nonlinear_arith) requires np == a1 * pd - a2 * pn, t == pn * b2;
    assert(a2 * t == pd * (a2 * u)) by(nonlinear_arith) requires t == u * pd;
    assert((a1 * pd) * b2 == pd * (a1 * b2)) by(nonlinear_arith);
    let w = a1 * b2 - a2 * u;
    assert(pd * (a1 * b2) - pd * (a2 * u) == pd * w) by(nonlinear_arith) requires w == a1 * b2 - a2 * u;
    assert(np * b2 == pd * w);
    // multiply the difference equation by b2 and cancel pd
    let x = rn * a2;
    assert(rn * (a2 * pd) == x * pd) by(nonlinear_arith) requires x == rn * a2;
    assert(x * pd == np * rd);
    assert((x * b2) * pd == (x * pd) * b2) by(nonlinear_arith);
    assert((np * rd) * b2 == (np * b2) * rd) by(nonlinear_arith);
    assert((pd * w) * rd == (w * rd) * pd) by(nonlinear_arith);
    assert((x * b2) * pd == (w * rd) * pd);
    assert(x * b2 == w * rd) by(nonlinear_arith) requires (x * b2) * pd == (w * rd) * pd, pd > 0;
    // rearrange: a1*b2*rd == (b1*q*rd + rn*b2) * a2
    assert(w * rd == (a1 * b2) * rd - (a2 * u) * rd) by(nonlinear_arith) requires w == a1 * b2 - a2 * u;
    assert((a2 * u) * rd == ((b1 * q) * rd) * a2) by(nonlinear_arith) requires u == q * b1;
    assert(x * b2 == (rn * b2) * a2) by(nonlinear_arith) requires x == rn * a2;
    assert(((b1 * q) * rd + rn * b2) * a2 == ((b1 * q) * rd) * a2 + (rn * b2) * a2) by(nonlinear_arith);
    assert(a1 * b2 * rd == (b1 * q * rd + rn * b2) * a2);
}

/// r is the remainder of n by d for the integer quotient q:   n = d*q + r
pub open spec fn is_remainder<R: RealNumberInternalTrait>(r: Number<R>, n: Number<R>, d: Number<R>, q: int) -> bool {
    numer(n) * denom(d) * denom(r) == (numer(d) * q * denom(r) + numer(r) * denom(d)) * denom(n)
}
/// premises shared by the three floor_remainder hints: exact operands with positive denominators, non-zero divisor,
/// fq the integer floor quotient
pub open spec fn fr_ctx<R: RealNumberInternalTrait>(n: Number<R>, d: Number<R>, fq: Number<R>) -> bool {
    is_exact(n) && is_exact(d) && wf(n) && wf(d) && numer(d) != 0 && fq is Integer
        && is_floor_of_quotient(numer(fq), n, d)
}
proof fn lemma_fr_product_fits<R: RealNumberInternalTrait>(n: Number<R>, d: Number<R>, fq: Number<R>)
    requires fr_ctx(n, d, fq), small(n), small(d),
    ensures fits(numer(fq) * numer(d), denom(fq) * denom(d)),
{
    lemma_fr_a(numer(n), denom(n), numer(d), denom(d), numer(fq));
    assert(denom(fq) * denom(d) == denom(d)) by(nonlinear_arith) requires denom(fq) == 1;
}
proof fn lemma_fr_difference_fits<R: RealNumberInternalTrait>(n: Number<R>, d: Number<R>, fq: Number<R>, p: Number<R>)
    requires fr_ctx(n, d, fq), small(n), small(d), is_exact(p), wf(p), is_product(p, fq, d),
        size_le(p, numer(fq) * numer(d), denom(fq) * denom(d)),
    ensures fits(numer(n) * denom(p) - denom(n) * numer(p), denom(n) * denom(p)),
{
    assert(denom(fq) * denom(d) == denom(d)) by(nonlinear_arith) requires denom(fq) == 1;
    assert(p is Integer ==> denom(p) == 1);
    lemma_fr_b(numer(n), denom(n), numer(d), denom(d), numer(fq), numer(p), denom(p));
}
proof fn lemma_fr_equation<R: RealNumberInternalTrait>(n: Number<R>, d: Number<R>, fq: Number<R>, p: Number<R>, r: Number<R>)
    requires fr_ctx(n, d, fq), is_exact(p), wf(p), is_product(p, fq, d), is_exact(r), wf(r), is_sum(r, n, p, -1),
    ensures is_remainder(r, n, d, numer(fq)),
{
    assert(denom(fq) * denom(d) == denom(d)) by(nonlinear_arith) requires denom(fq) == 1;
    lemma_fr_c(numer(n), denom(n), numer(d), denom(d), numer(fq), numer(p), denom(p), numer(r), denom(r));
    assert(numer(d) * numer(fq) * denom(r) == numer(d) * numer(fq) * denom(r));
}

proof fn lemma_mul_commutes()
    ensures forall|x: int, y: int| #![trigger x * y] x * y == y * x,
{
    assert forall|x: int, y: int| #![trigger x * y] x * y == y * x by {
        assert(x * y == y * x) by(nonlinear_arith);
    }
}

proof fn lemma_i32_products()
    ensures
        forall|x: int, y: int| #![trigger x * y] i32r(x) && i32r(y)
            ==> -0x4000_0000_0000_0000 <= x * y <= 0x4000_0000_0000_0000,
        forall|x: int, y: int| #![trigger x * y] i32r(x) && 0 < y <= 0x7fff_ffff
            ==> -0x3fff_ffff_8000_0000 <= x * y <= 0x3fff_ffff_8000_0000,
        forall|x: int, y: int| #![trigger x * y] 0 < x <= 0x7fff_ffff && i32r(y)
            ==> -0x3fff_ffff_8000_0000 <= x * y <= 0x3fff_ffff_8000_0000,
        forall|x: int, y: int| #![trigger x * y] 0 < x && 0 < y ==> 0 < x * y,
        forall|x: int, y: int| #![trigger x * y] x != 0 && y != 0 ==> x * y != 0,
        forall|x: int, y: int| #![trigger x * y] (y == 1 ==> x * y == x) && (x == 1 ==> x * y == y),
        forall|x: int, y: int| #![trigger x * y] -0x8000 < x < 0x8000 && -0x8000 < y < 0x8000
            ==> -0x4000_0000 < x * y < 0x4000_0000,
{
    assert forall|x: int, y: int| #![trigger x * y] i32r(x) && i32r(y)
        implies -0x4000_0000_0000_0000 <= x * y <= 0x4000_0000_0000_0000 by {
        assert(-0x4000_0000_0000_0000 <= x * y <= 0x4000_0000_0000_0000) by(nonlinear_arith)
            requires -0x8000_0000 <= x <= 0x7fff_ffff, -0x8000_0000 <= y <= 0x7fff_ffff;
    }
    assert forall|x: int, y: int| #![trigger x * y] i32r(x) && 0 < y <= 0x7fff_ffff
        implies -0x3fff_ffff_8000_0000 <= x * y <= 0x3fff_ffff_8000_0000 by {
        assert(-0x3fff_ffff_8000_0000 <= x * y <= 0x3fff_ffff_8000_0000) by(nonlinear_arith)
            requires -0x8000_0000 <= x <= 0x7fff_ffff, 0 < y <= 0x7fff_ffff;
    }
    assert forall|x: int, y: int| #![trigger x * y] 0 < x <= 0x7fff_ffff && i32r(y)
        implies -0x3fff_ffff_8000_0000 <= x * y <= 0x3fff_ffff_8000_0000 by {
        assert(-0x3fff_ffff_8000_0000 <= x * y <= 0x3fff_ffff_8000_0000) by(nonlinear_arith)
            requires -0x8000_0000 <= y <= 0x7fff_ffff, 0 < x <= 0x7fff_ffff;
    }
    assert forall|x: int, y: int| #![trigger x * y] 0 < x && 0 < y implies 0 < x * y by {
        assert(0 < x * y) by(nonlinear_arith) requires 0 < x, 0 < y;
    }
    assert forall|x: int, y: int| #![trigger x * y] (y == 1 ==> x * y == x) && (x == 1 ==> x * y == y) by {
        assert((y == 1 ==> x * y == x) && (x == 1 ==> x * y == y)) by(nonlinear_arith);
    }
    assert forall|x: int, y: int| #![trigger x * y] x != 0 && y != 0 implies x * y != 0 by {
        assert(x * y != 0) by(nonlinear_arith) requires x != 0, y != 0;
    }
    assert forall|x: int, y: int| #![trigger x * y] -0x8000 < x < 0x8000 && -0x8000 < y < 0x8000
        implies -0x4000_0000 < x * y < 0x4000_0000 by {
        assert(-0x4000_0000 < x * y < 0x4000_0000) by(nonlinear_arith)
            requires -0x8000 < x < 0x8000, -0x8000 < y < 0x8000;
    }
}
'''

R_OPS = "        proof { R::real_ops_are_total_functions(); lemma_i32_products(); }"
R_OPS_CMP = "        proof { R::real_ops_are_total_functions(); lemma_i32_products(); lemma_mul_commutes(); }"
FLOOR_HINT = """                proof {
                    lemma_rust_div_rem(a as int, b as int);
                    let q = rust_div(a as int, b as int);
                    assert(quot == q);
                    assert((q - 1) * b == q * b - b) by(nonlinear_arith);
                    assert((q + 1) * b == q * b + b) by(nonlinear_arith);
                    if q * b != a { lemma_trunc_strict(a as int, b as int); }
                }"""
# after the widening `let (a1, a2, b1, b2) = (.. as i64, ..)`: name the components (a solver hint, no new fact)
WIDEN = (r"let \(a1, a2, b1, b2\) = \(a1 as i64, a2 as i64, b1 as i64, b2 as i64\);",
         "                proof { assert(is_exact(self) && is_exact(rhs) ==> denom(self) == a2 && denom(rhs) == b2 "
         "&& numer(self) == a1 && numer(rhs) == b1); }")

# in the ratio arm of eq / partial_cmp: name the components (a solver hint, no new fact)
CMP_HINT = (r"NumberBinaryOperand::Rational\(a1, a2, b1, b2\) => \{",
            "                proof { assert(is_exact(*self) && is_exact(*other) ==> numer(*self) == a1 && denom(*self) == a2 "
            "&& numer(*other) == b1 && denom(*other) == b2); }")

V = "src/values.rs"
IMPLN = r"^impl<R: RealNumberInternalTrait> Number<R>$"

UNIT = {
    "props": ["C09", "C10", "C08", "C07"],
    "uses": "use vstd::arithmetic::div_mod::*;\nuse vstd::std_specs::ops::*;\nuse vstd::std_specs::cmp::*;\nuse core::cmp::Ordering;",
    "rlimit": 30,
    "trusted": {
        "i64::abs": "std i64::abs is the mathematical absolute value (x > i64::MIN)",
        "ErrorData": "opaque error payload (X2): only the DivisionByZero constructor is distinguished",
        "check_division_by_zero_err": "constructor of the DivisionByZero error (error! macro in expanded form, X6)",
    },
    "prelude": PRELUDE + r'''
/// TRUSTED std: i64::abs (not specified by vstd)
pub assume_specification [i64::abs] (x: i64) -> (r: i64)
    requires x > i64::MIN
    ensures r == abs_int(x as int);

// ---- error types: only what `check_division_by_zero` constructs (X2 / X6) ----
pub enum LogicError { DivisionByZero, Other }
pub enum ErrorData { Logic(LogicError), Other }
pub struct Located<T> { pub data: T, pub location: Option<[u32; 2]> }
pub type SchemeError = Located<ErrorData>;
type Result<T> = core::result::Result<T, SchemeError>;
/// `error!(LogicError::DivisionByZero)` = `Err(ErrorData::from(LogicError::DivisionByZero).no_locate())`
/// (macro in src/error.rs; thiserror `#[from]`; ToLocated::no_locate) -- rule X6, trusted.
#[verifier::external_body]
fn check_division_by_zero_err<T>() -> (r: Result<T>)
    ensures is_div_by_zero(r),
{ unimplemented!() }
''',
    "items": [
        {"kind": "enum", "file": V, "name": "Number", "attrs": "#[derive(Clone, Copy)]"},
        {"kind": "enum", "file": V, "name": "NumberBinaryOperand"},
        {"kind": "fn", "file": V, "name": "upcast_oprands", "props": ["C09", "C10"],
         "contract": """    ensures upcast_post(operand.0, operand.1, r),""",
         "sig_rewrites": [("S1", r"\) -> NumberBinaryOperand<R>$", ") -> (r: NumberBinaryOperand<R>)")],
         "body_start": R_OPS},

        {"kind": "impl", "file": V, "impl": r"^impl<R: RealNumberInternalTrait> NumberBinaryOperand<R>$",
         "methods": {
             "lhs": {"sig_rewrites": [("S1", r"-> Number<R>$", "-> (r: Number<R>)")],
                     "contract": "        ensures r == self.lhs_spec(),"},
             "rhs": {"sig_rewrites": [("S1", r"-> Number<R>$", "-> (r: Number<R>)")],
                     "contract": "        ensures r == self.rhs_spec(),"},
         }},
        {"kind": "fn", "file": V, "name": "check_division_by_zero", "props": ["C08", "C09"],
         "sig_rewrites": [("S1", r"-> Result<\(\)>$", "-> (r: Result<()>)")],
         "rewrites": [("X6", r"error!\(LogicError::DivisionByZero\)", "check_division_by_zero_err()")],
         "contract": "    ensures num == 0 ==> is_div_by_zero(r), num != 0 ==> r is Ok,"},
        {"kind": "impl", "file": V, "impl": r"std::ops::Add<Number<R>> for Number<R>$",
         "methods": {"add": {"props": ["C09", "C07"],
             "sig_rewrites": [("S1", r"-> Number<R>$", "-> (r: Number<R>)")],
             "body_start": R_OPS, "inserts": [WIDEN],
             "contract": """        ensures
            is_exact(self) && is_exact(rhs) ==> {
                &&& (is_exact(r) ==> wf(r) && is_sum(r, self, rhs, 1))
                &&& (small(self) && small(rhs) ==> is_exact(r))
                &&& (fits(numer(self) * denom(rhs) + denom(self) * numer(rhs), denom(self) * denom(rhs)) ==> is_exact(r))
                &&& (is_exact(r) ==> size_le(r, numer(self) * denom(rhs) + denom(self) * numer(rhs), denom(self) * denom(rhs)))
            },
            !is_exact(self) || !is_exact(rhs) ==> r == Number::Real(conv(self).add_spec(conv(rhs))),"""}}},
        {"kind": "impl", "file": V, "impl": r"std::ops::Sub<Number<R>> for Number<R>$",
         "methods": {"sub": {"props": ["C09", "C07"],
             "sig_rewrites": [("S1", r"-> Number<R>$", "-> (r: Number<R>)")],
             "body_start": R_OPS, "inserts": [WIDEN],
             "contract": """        ensures
            is_exact(self) && is_exact(rhs) ==> {
                &&& (is_exact(r) ==> wf(r) && is_sum(r, self, rhs, -1))
                &&& (small(self) && small(rhs) ==> is_exact(r))
                &&& (fits(numer(self) * denom(rhs) - denom(self) * numer(rhs), denom(self) * denom(rhs)) ==> is_exact(r))
                &&& (is_exact(r) ==> size_le(r, numer(self) * denom(rhs) - denom(self) * numer(rhs), denom(self) * denom(rhs)))
            },
            !is_exact(self) || !is_exact(rhs) ==> r == Number::Real(conv(self).sub_spec(conv(rhs))),"""}}},
        {"kind": "impl", "file": V, "impl": r"std::ops::Mul<Number<R>> for Number<R>$",
         "methods": {"mul": {"props": ["C09", "C07"],
             "sig_rewrites": [("S1", r"-> Number<R>$", "-> (r: Number<R>)")],
             "body_start": R_OPS, "inserts": [WIDEN],
             "contract": """        ensures
            is_exact(self) && is_exact(rhs) ==> {
                &&& (is_exact(r) ==> wf(r) && is_product(r, self, rhs))
                &&& (small(self) && small(rhs) ==> is_exact(r))
                &&& (fits(numer(self) * numer(rhs), denom(self) * denom(rhs)) ==> is_exact(r))
                &&& (is_exact(r) ==> size_le(r, numer(self) * numer(rhs), denom(self) * denom(rhs)))
            },
            !is_exact(self) || !is_exact(rhs) ==> r == Number::Real(conv(self).mul_spec(conv(rhs))),"""}}},
        {"kind": "impl", "file": V, "impl": r"std::ops::Div<Number<R>> for Number<R>$",
         "methods": {"div": {"props": ["C09", "C08", "C07"],
             "sig_rewrites": [("S1", r"-> Self::Output$", "-> (r: Self::Output)")],
             "body_start": R_OPS,
             "inserts": [(r"let \(a, b\) = \(a as i64, b as i64\);",
                          "                proof { lemma_rust_div_rem(a as int, b as int); "
                          "assert(numer(self) == a && numer(rhs) == b && denom(self) == 1 && denom(rhs) == 1); }"),
                         WIDEN],
             "contract": """        ensures
            is_exact(self) && is_exact(rhs) && numer(rhs) == 0 ==> is_div_by_zero(r),
            is_exact(self) && is_exact(rhs) && numer(rhs) != 0 ==> {
                &&& r is Ok
                &&& (is_exact(r->Ok_0) ==> wf(r->Ok_0) && is_quotient(r->Ok_0, self, rhs))
                &&& (small(self) && small(rhs) ==> is_exact(r->Ok_0))
            },
            !is_exact(self) || !is_exact(rhs) ==> r == Ok::<Number<R>, SchemeError>(Number::Real(conv(self).div_spec(conv(rhs)))),"""}}},

        {"kind": "impl", "file": V, "impl": r"^impl<R: RealNumberInternalTrait> PartialEq for Number<R>$",
         "methods": {"eq": {"props": ["C10", "C07"],
             "sig_rewrites": [("S1", r"-> bool$", "-> (r: bool)")],
             "body_start": R_OPS, "inserts": [CMP_HINT], "attrs": "#[verifier::spinoff_prover]",
             "contract": """        ensures
            // for ALL operands (the trait-level postcondition r == self.eq_spec(other) is proved as well)
            r == num_eq_spec(*self, *other),"""}}},
        {"kind": "impl", "file": V, "impl": r"^impl<R: RealNumberInternalTrait> PartialOrd for Number<R>$",
         "methods": {"partial_cmp": {"props": ["C10", "C07"],
             "sig_rewrites": [("S1", r"-> Option<Ordering>$", "-> (r: Option<Ordering>)")],
             "body_start": R_OPS, "inserts": [CMP_HINT], "attrs": "#[verifier::spinoff_prover]",
             "contract": """        ensures
            r == num_cmp_spec(*self, *other),"""}}},
        {"kind": "impl", "file": V, "impl": IMPLN, "nth": 0,
         "methods": {"exact_eqv": {"props": ["C10", "C07"],
             "sig_rewrites": [("S1", r"-> bool$", "-> (r: bool)")],
             "body_start": R_OPS_CMP,
             "contract": """        ensures
            // KNOWN FINDING (known_findings.toml: C10 eqv-integer-vs-ratio): an Integer and a numerically
            // equal Rational are reported not eqv?; everything outside that case is proved here.
            wf(*self) && wf(*other) && !mixed_int_ratio_equal(*self, *other) ==> r == (
                if is_exact(*self) && is_exact(*other) { q_eq(*self, *other) }
                else if !is_exact(*self) && !is_exact(*other) { conv(*self).eq_spec(&conv(*other)) }
                else { false }),"""}}},
        {"kind": "impl", "file": V, "impl": IMPLN, "nth": 1,
         "methods": {
             "from_ratio": {"props": ["C09", "C07"],
                 "sig_rewrites": [("S1", r"-> Self$", "-> (r: Self)")],
                 "body_start": R_OPS + "\n        proof { assert((-num) * den == num * (-den)) by(nonlinear_arith); }",
                 "contract": """        requires
            den != 0, num > i64::MIN, den > i64::MIN,
        ensures
            is_exact(r) ==> wf(r) && numer(r) * den == num * denom(r),
            -0x8000_0000 < num < 0x8000_0000 && -0x8000_0000 < den < 0x8000_0000 ==> is_exact(r),
            den == 1 && is_exact(r) ==> r == Number::<R>::Integer(num as i32),
            is_exact(r) && num >= 0 && den > 0 ==> numer(r) >= 0,
            // the representation is never larger than the unreduced one (also true of a reducing implementation)
            is_exact(r) ==> abs_int(numer(r)) <= abs_int(num as int) && denom(r) <= abs_int(den as int),"""},

             "abs": {"props": ["C09", "C07"],
                 "sig_rewrites": [("S1", r"-> Number<R>$", "-> (r: Number<R>)")],
                 "body_start": R_OPS,
                 "contract": """        requires wf(self),
        ensures
            is_exact(self) ==> {
                &&& (is_exact(r) ==> wf(r) && numer(r) >= 0
                        && (numer(r) * denom(self) == numer(self) * denom(r) || numer(r) * denom(self) == -numer(self) * denom(r)))
                &&& (small(self) ==> is_exact(r))
            },
            self matches Number::Real(x) ==> r == Number::Real(x.abs_spec()),"""},
             "floor": {"props": ["C09", "C07"],
                 "sig_rewrites": [("S1", r"-> Self$", "-> (r: Self)")],
                 "body_start": R_OPS,
                 "inserts": [(r"let quot = a / b;", FLOOR_HINT)],
                 "contract": """        requires wf(self),
        ensures
            is_exact(self) ==> r is Integer && is_floor(numer(r), self),
            self matches Number::Real(x) ==> r == Number::Real(x.floor_spec()),"""},
             "ceiling": {"props": ["C09", "C07"],
                 "sig_rewrites": [("S1", r"-> Self$", "-> (r: Self)")],
                 "body_start": R_OPS,
                 "inserts": [(r"let quot = a / b;", FLOOR_HINT)],
                 "contract": """        requires wf(self),
        ensures
            is_exact(self) ==> r is Integer && is_ceiling(numer(r), self),
            self matches Number::Real(x) ==> r == Number::Real(x.ceil_spec()),"""},


             "floor_remainder": {"props": ["C09", "C07"],
                 "sig_rewrites": [("S1", r"-> Result<Self>$", "-> (r: Result<Self>)")],
                 "body_start": R_OPS + """
        proof {
            assert forall|fq: Number<R>| #![trigger is_floor_of_quotient(numer(fq), self, rhs)]
                fr_ctx(self, rhs, fq) && small(self) && small(rhs)
                implies fits(numer(fq) * numer(rhs), denom(fq) * denom(rhs)) by { lemma_fr_product_fits(self, rhs, fq); }
            assert forall|fq: Number<R>, p: Number<R>| #![trigger is_product(p, fq, rhs)]
                fr_ctx(self, rhs, fq) && small(self) && small(rhs) && is_exact(p) && wf(p) && is_product(p, fq, rhs)
                && size_le(p, numer(fq) * numer(rhs), denom(fq) * denom(rhs))
                implies fits(numer(self) * denom(p) - denom(self) * numer(p), denom(self) * denom(p))
                by { lemma_fr_difference_fits(self, rhs, fq, p); }
            assert forall|fq: Number<R>, p: Number<R>, r: Number<R>| #![trigger is_product(p, fq, rhs), is_sum(r, self, p, -1)]
                fr_ctx(self, rhs, fq) && is_exact(p) && wf(p) && is_product(p, fq, rhs) && is_exact(r) && wf(r) && is_sum(r, self, p, -1)
                implies is_remainder(r, self, rhs, numer(fq)) by { lemma_fr_equation(self, rhs, fq, p, r); }
        }""",
                 "contract": """        requires wf(self), wf(rhs),
        ensures
            is_exact(self) && is_exact(rhs) && numer(rhs) == 0 ==> is_div_by_zero(r),
            is_exact(self) && is_exact(rhs) && numer(rhs) != 0 ==> r is Ok && {
                // never wrong: an exact remainder satisfies n = d*q + r for the floor quotient q
                &&& (is_exact(r->Ok_0) ==> wf(r->Ok_0) && exists|q: int| is_floor_of_quotient(q, self, rhs)
                        && is_remainder(r->Ok_0, self, rhs, q))
                // always exact below 2^15
                &&& (small(self) && small(rhs) ==> is_exact(r->Ok_0))
            },
            !is_exact(self) || !is_exact(rhs) ==> r is Ok && r->Ok_0 is Real,"""},
             "floor_quotient": {"props": ["C09", "C08", "C07"],
                 "sig_rewrites": [("S1", r"-> Result<Self>$", "-> (r: Result<Self>)")],
                 "body_start": R_OPS + """
        proof {
            assert forall|z: Number<R>, q: int| #![trigger is_quotient(z, self, rhs), is_floor(q, z)]
                is_exact(z) && wf(z) && is_exact(self) && is_exact(rhs) && numer(rhs) != 0
                && is_quotient(z, self, rhs) && is_floor(q, z)
                implies is_floor_of_quotient(q, self, rhs) by { lemma_floor_of_quotient(q, z, self, rhs); }
        }""",
                 "contract": """        requires wf(self), wf(rhs),
        ensures
            is_exact(self) && is_exact(rhs) && numer(rhs) == 0 ==> is_div_by_zero(r),
            is_exact(self) && is_exact(rhs) && numer(rhs) != 0 ==> r is Ok && {
                ||| (r->Ok_0 is Integer && is_floor_of_quotient(numer(r->Ok_0), self, rhs))
                ||| (r->Ok_0 is Real && !(small(self) && small(rhs)))
            },
            !is_exact(self) || !is_exact(rhs) ==>
                r == Ok::<Number<R>, SchemeError>(Number::Real(conv(self).div_spec(conv(rhs)).floor_spec())),"""},
         }},
    ],
    "spec": SPEC + r'''
/// the contract of upcast_oprands: both operands brought to a common kind without changing their values
pub open spec fn upcast_post<R: RealNumberInternalTrait>(x: Number<R>, y: Number<R>, r: NumberBinaryOperand<R>) -> bool {
    &&& (wf(x) && wf(y) ==> wf(r.lhs_spec()) && wf(r.rhs_spec()))
    &&& (is_exact(x) && is_exact(y) ==> {
            &&& is_exact(r.lhs_spec()) && is_exact(r.rhs_spec())
            &&& numer(r.lhs_spec()) == numer(x) && denom(r.lhs_spec()) == denom(x)
            &&& numer(r.rhs_spec()) == numer(y) && denom(r.rhs_spec()) == denom(y)
            &&& (r is Integer <==> x is Integer && y is Integer)
        })
    &&& (!is_exact(x) || !is_exact(y) ==> r == NumberBinaryOperand::Real(conv(x), conv(y)))
}
/// C10 max / min: the binary step of the builtins max and min (base.rs first_of_order!: `if a > b { oprand.lhs() } else
/// { oprand.rhs() }` on `oprand = upcast_oprands((a, b))`; proved in unit base_folds to be what is folded) returns, on
/// exact operands, an exact number that is numerically one of the two and not below (max) / not above (min) either of
/// them; with an inexact operand it returns the converted operand selected by R's own comparison -- inexact.
pub proof fn lemma_maxmin_step<R: RealNumberInternalTrait>(a: Number<R>, b: Number<R>, o: NumberBinaryOperand<R>, want_max: bool)
    requires wf(a), wf(b), upcast_post(a, b, o),
    ensures ({
        let first = if want_max { num_cmp_spec(a, b) == Some(Ordering::Greater) } else { num_cmp_spec(a, b) == Some(Ordering::Less) };
        let m = if first { o.lhs_spec() } else { o.rhs_spec() };
        &&& wf(m)
        &&& is_exact(m) == (is_exact(a) && is_exact(b))
        &&& (is_exact(a) && is_exact(b) ==> {
                &&& (q_eq(m, a) || q_eq(m, b))
                &&& (want_max ==> !q_lt(m, a) && !q_lt(m, b))
                &&& (!want_max ==> !q_lt(a, m) && !q_lt(b, m))
            })
        &&& (!is_exact(a) || !is_exact(b) ==> m == (if first { Number::Real(conv(a)) } else { Number::Real(conv(b)) }))
    }),
{
    lemma_i32_products();
    lemma_mul_commutes();
}
// ---- C10: the five comparison operators on Numbers, as the builtins use them (`last_num < current_num`, `==` ...):
// ---- std derives them from partial_cmp / eq; with Number obeying its specs they are PROVED to be the order above
fn witness_operators<R: RealNumberInternalTrait>(x: Number<R>, y: Number<R>) -> (r: (bool, bool, bool, bool, bool))
    ensures
        r.0 == num_eq_spec(x, y),
        r.1 == (num_cmp_spec(x, y) == Some(Ordering::Less)),
        r.2 == (num_cmp_spec(x, y) == Some(Ordering::Greater)),
        r.3 == (num_cmp_spec(x, y) == Some(Ordering::Less) || num_cmp_spec(x, y) == Some(Ordering::Equal)),
        r.4 == (num_cmp_spec(x, y) == Some(Ordering::Greater) || num_cmp_spec(x, y) == Some(Ordering::Equal)),
{
    (x == y, x < y, x > y, x <= y, x >= y)
}
impl<R: RealNumberInternalTrait> NumberBinaryOperand<R> {
    pub open spec fn lhs_spec(self) -> Number<R> {
        match self {
            NumberBinaryOperand::Integer(a, _) => Number::Integer(a),
            NumberBinaryOperand::Real(a, _) => Number::Real(a),
            NumberBinaryOperand::Rational(a1, a2, _, _) => Number::Rational(a1, a2),
        }
    }
    pub open spec fn rhs_spec(self) -> Number<R> {
        match self {
            NumberBinaryOperand::Integer(_, b) => Number::Integer(b),
            NumberBinaryOperand::Real(_, b) => Number::Real(b),
            NumberBinaryOperand::Rational(_, _, b1, b2) => Number::Rational(b1, b2),
        }
    }
}
''',
}


# ---- as-found variant (VERIF_ASFOUND=1): the same contracts on the code of the pinned commit (no
# ---- from_ratio helper, no widening lets to anchor hints on).  Used to report defects F1-F4 before the fix.
import copy as _copy
UNIT_ASFOUND = _copy.deepcopy(UNIT)
for _it in UNIT_ASFOUND["items"]:
    for _m in list((_it.get("methods") or {}).keys()):
        _it["methods"][_m].pop("inserts", None)
        if _m == "from_ratio":
            del _it["methods"][_m]
UNIT_ASFOUND["prelude"] = UNIT_ASFOUND["prelude"] + """
pub assume_specification [i32::abs] (x: i32) -> (r: i32)
    requires x > i32::MIN
    ensures r == abs_int(x as int);
"""
UNIT_ASFOUND["trusted"]["i32::abs"] = "std i32::abs (as-found code only)"
