# C15 (first mechanism): Lexer::advance tracks line/column exactly; every token gets the lexer's position.
# Real code under contract: src/parser/lexer.rs  struct Lexer, Lexer::from_char_stream, Lexer::advance,
#                           <Lexer as Iterator>::next;  src/error.rs  struct Located, trait ToLocated
# The Lexer stays generic in its character iterator (no instantiation rule needed).

L = "src/parser/lexer.rs"
E = "src/error.rs"

PRELUDE = r'''
// ---- std::iter::Peekable is not specified by vstd: assumed specification over a ghost "remaining input" ----
#[verifier::external_type_specification]
#[verifier::external_body]
#[verifier::reject_recursive_types(I)]
pub struct ExPeekable<I: Iterator>(Peekable<I>);

/// the characters the stream will still yield
pub uninterp spec fn rem<I: Iterator>(p: Peekable<I>) -> Seq<I::Item>;
/// history variable: the characters the stream has yielded since it was created
pub uninterp spec fn consumed<I: Iterator>(p: Peekable<I>) -> Seq<I::Item>;

pub assume_specification<I: Iterator>[ <Peekable<I> as Iterator>::next ](p: &mut Peekable<I>) -> (r: Option<I::Item>)
    ensures
        rem(*old(p)).len() == 0 ==> r is None && rem(*final(p)).len() == 0 && consumed(*final(p)) == consumed(*old(p)),
        rem(*old(p)).len() > 0 ==> r == Some(rem(*old(p))[0]) && rem(*final(p)) == rem(*old(p)).skip(1)
            && consumed(*final(p)) == consumed(*old(p)).push(rem(*old(p))[0]);

/// std Iterator::peekable (a provided trait method Verus cannot give an assume_specification): wrapped (rule X3s)
#[verifier::external_body]
pub fn std_peekable<I: Iterator>(it: I) -> (r: Peekable<I>)
    ensures consumed(r).len() == 0,
{ it.peekable() }

pub assume_specification<I: Iterator>[ Peekable::<I>::peek ](p: &mut Peekable<I>) -> (r: Option<&I::Item>)
    ensures
        rem(*final(p)) == rem(*old(p)), consumed(*final(p)) == consumed(*old(p)),
        rem(*old(p)).len() == 0 ==> r is None,
        rem(*old(p)).len() > 0 ==> r == Some(&rem(*old(p))[0]);

#[verifier::external_trait_specification]
pub trait ExFromStr: Sized {
    type ExternalTraitSpecificationFor: core::str::FromStr;
    type Err;
    fn from_str(s: &str) -> core::result::Result<Self, Self::Err>;
}
#[verifier::external_type_specification]
#[verifier::external_body]
pub struct ExParseIntError(core::num::ParseIntError);
/// str::parse: may fail -- nothing is assumed about its result
pub assume_specification<F: core::str::FromStr>[ str::parse::<F> ](s: &str) -> (r: core::result::Result<F, F::Err>);

// ---- opaque (X2) ----
#[verifier::external_body] pub struct SchemeError { _p: () }
/// located_error!(SyntaxError::..., location): the message arguments are dropped (X6), an Err is built
#[verifier::external_body]
pub fn syntax_error<T>(location: Option<[u32; 2]>) -> (r: Result<T>) ensures r is Err { unimplemented!() }

/// REPRESENTATION INVARIANT of the Lexer (C15): the stored position is exactly the position after the text
/// consumed so far, counted from line 1 column 1 -- and the whole text is short enough for the u32 counters.
/// (Lexer::set_last_location, unused in the crate, is the one public way to break it: ASSUMED not called.)
pub open spec fn wf_lexer<CharIter: Iterator<Item = char>>(l: Lexer<CharIter>) -> bool {
    &&& (l.location[0] as int, l.location[1] as int) == pos_after((1, 1), consumed(l.peekable_char_stream))
    &&& consumed(l.peekable_char_stream).len() + rem(l.peekable_char_stream).len() + 1 < u32::MAX
}

pub type Token = Located<TokenData>;
type Result<T> = core::result::Result<T, SchemeError>;
impl ToLocated for TokenData {}

// ------------------------------------------------------------------------------------------
// Specification: the position after consuming a text, starting from (line, column)
// ------------------------------------------------------------------------------------------
pub open spec fn pos_after(start: (int, int), s: Seq<char>) -> (int, int)
    decreases s.len()
{
    if s.len() == 0 { start } else {
        let p = pos_after(start, s.drop_last());
        if s.last() == '\n' { (p.0 + 1, 1) } else { (p.0, p.1 + 1) }
    }
}
pub proof fn lemma_pos_bounds(start: (int, int), s: Seq<char>)
    requires start.1 >= 1,
    ensures
        start.0 <= pos_after(start, s).0 <= start.0 + s.len(),
        1 <= pos_after(start, s).1 <= start.1 + s.len(),
    decreases s.len()
{
    if s.len() > 0 { lemma_pos_bounds(start, s.drop_last()); }
}
/// C15: a position computed from a longer prefix is never on an earlier line -- a token's location lies at or
/// after every character consumed before it and never beyond the end of the text
pub proof fn lemma_pos_monotone(start: (int, int), s: Seq<char>, k: int)
    requires 0 <= k <= s.len(), start.1 >= 1,
    ensures pos_after(start, s.take(k)).0 <= pos_after(start, s).0,
    decreases s.len() - k
{
    if k < s.len() {
        lemma_pos_monotone(start, s, k + 1);
        assert(s.take(k + 1).drop_last() =~= s.take(k));
    } else {
        assert(s.take(k) =~= s);
    }
}
pub open spec fn is_digit(c: char) -> bool { '0' <= c && c <= '9' }
pub open spec fn min_int(a: int, b: int) -> int { if a <= b { a } else { b } }
'''

UNIT = {
    "props": ["C15", "C07"],
    "uses": "use core::iter::Peekable;",
    "rlimit": 30,
    "trusted": {
        "ExPeekable": "std::iter::Peekable as an opaque type",
        "next": "ASSUMED std contract: Peekable::next yields the head of the remaining input and drops it",
        "std_peekable": "X3s: `char_stream.peekable()` called through an opaque wrapper (no contract needed)",
        "SchemeError": "opaque type (X2)",
        "peek": "ASSUMED std contract: Peekable::peek shows the head of the remaining input without consuming it",
        "parse": "std str::parse: nothing assumed (may fail)", "ExParseIntError": "std error type (opaque)",
        "syntax_error": "X6: located_error!(SyntaxError::.., loc) builds an Err",

    },
    "prelude": PRELUDE,
    "items": [
        {"kind": "struct", "file": E, "name": "Located"},
        {"kind": "trait", "file": E, "name": "ToLocated", "keep_others": True,
         "methods": {"locate": {"props": ["C15"],
             "sig_rewrites": [("S1", r"-> Located<Self>(?=\s+where)", "-> (r: Located<Self>)")],
             "contract": "        ensures r.data == self, r.location == location,"}}},
        {"kind": "enum", "file": "src/parser/datum.rs", "name": "Primitive"},
        {"kind": "enum", "file": L, "name": "TokenData"},
        {"kind": "struct", "file": L, "name": "Lexer", "attrs": "#[verifier::reject_recursive_types(CharIter)]"},
        {"kind": "fn", "file": L, "name": "is_identifier_initial", "contract": ""},
        # rule P1: further single-expression helper predicates on characters, should the file define any
        {"kind": "auto_pure_fns", "file": L, "spec_names": {}},
        {"kind": "impl", "file": L, "impl": r"^impl<CharIter: Iterator<Item = char>> Lexer<CharIter>$",
         "methods": {
             "from_char_stream": {"props": ["C15"],
                 "sig_rewrites": [("S1", r"-> Lexer<CharIter>$", "-> (r: Lexer<CharIter>)")],
                 "rewrites": [("X3s", r"char_stream\.peekable\(\)", "std_peekable(char_stream)")],
                 "contract": """        ensures
            r.location[0] == 1 && r.location[1] == 1, r.current is None,
            // the representation invariant holds initially (for a text shorter than 2^32 - 2 characters)
            rem(r.peekable_char_stream).len() + 1 < u32::MAX ==> wf_lexer(r),"""},
             "advance": {"props": ["C15", "C07"],
                 "sig_rewrites": [("S1", r"-> &mut Option<char>$", "-> (r: &mut Option<char>)")],
                 "contract": """        requires wf_lexer(*old(self)),
        ensures ({
            let text = rem(old(self).peekable_char_stream);
            let n = min_int(count as int, text.len() as int);
            // exactly min(count, remaining) characters are consumed, in order ...
            &&& rem(final(self).peekable_char_stream) == text.skip(n)
            &&& consumed(final(self).peekable_char_stream) == consumed(old(self).peekable_char_stream) + text.take(n)
            // ... and the position is again the position after everything consumed so far
            &&& wf_lexer(*final(self))
            // the returned reference points at `current`, which holds the last character consumed (None past the end)
            &&& count == 0 ==> *r == old(self).current
            &&& count > 0 ==> *r == (if count <= text.len() { Some(text[count - 1]) } else { None::<char> })
        }),""",
                 "loops": {1: {"expect_kw": "for", "iter_name": "it",
                               "invariant": """            invariant ({
                let text = rem(old(self).peekable_char_stream);
                let k = it.index() as int;
                let n = min_int(k, text.len() as int);
                &&& it.seq().len() == count
                &&& wf_lexer(*old(self))
                &&& wf_lexer(*self)
                &&& rem(self.peekable_char_stream) == text.skip(n)
                &&& consumed(self.peekable_char_stream) == consumed(old(self).peekable_char_stream) + text.take(n)
                &&& k == 0 ==> self.current == old(self).current
                &&& k > 0 ==> self.current == (if k <= text.len() { Some(text[k - 1]) } else { None::<char> })
            }),""",
                               "body_start": """            proof {
                let text = rem(old(self).peekable_char_stream);
                let k = it.index() as int;
                let done = consumed(self.peekable_char_stream);
                lemma_pos_bounds((1, 1), done);
                if k < text.len() {
                    assert(text.take(k + 1) =~= text.take(k).push(text[k]));
                    assert(text.skip(k)[0] == text[k]);
                    assert(text.skip(k).skip(1) =~= text.skip(k + 1));
                    assert(done.push(text[k]).drop_last() =~= done);
                    assert(consumed(old(self).peekable_char_stream) + text.take(k + 1)
                        =~= (consumed(old(self).peekable_char_stream) + text.take(k)).push(text[k]));
                }
            }"""}},
                 },

             "parse_number": {"props": ["C07"], "optional": True,
                 "rewrites": [("X6", r"located_error!\(\s*SyntaxError::\w+(\([^;]*?\))?,\s*(Some\(self\.location\)|location|Some\(location\))\s*\)", r"syntax_error(\2)", 0, "S")],
                 "contract": ""},
             "test_delimiter": {"props": ["C07"],
                 "rewrites": [("X6", r"located_error!\(\s*SyntaxError::\w+(\([^;]*?\))?,\s*(Some\(self\.location\)|location|Some\(location\))\s*\)", r"syntax_error(\2)", 0, "S")],
                 "contract": ""},
             "digital10": {"props": ["C07"],
                 "attrs": "#[verifier::loop_isolation(false)]",
                 "rewrites": [("X5", r"\bbreak (Ok\()", r"return \1", 0)],
                 "contract": """        requires wf_lexer(*old(self)),
        ensures wf_lexer(*final(self)), rem(final(self).peekable_char_stream).len() <= rem(old(self).peekable_char_stream).len(),
            // a run of digits that starts with a digit consumes at least that digit (progress of `number`'s loop)
            rem(old(self).peekable_char_stream).len() > 0 && is_digit(rem(old(self).peekable_char_stream)[0])
                ==> rem(final(self).peekable_char_stream).len() < rem(old(self).peekable_char_stream).len(),""",
                 "loops": {1: {"expect_kw": "loop", "invariant": """            invariant wf_lexer(*self),
                rem(self.peekable_char_stream).len() < rem(old(self).peekable_char_stream).len()
                    || rem(self.peekable_char_stream) == rem(old(self).peekable_char_stream),
            decreases rem(self.peekable_char_stream).len(),"""}}},
             "number_suffix": {"props": ["C07"],
                 "contract": """        requires wf_lexer(*old(self)),
        ensures wf_lexer(*final(self)), rem(final(self).peekable_char_stream).len() <= rem(old(self).peekable_char_stream).len(),"""},
             "real": {"props": ["C07"],
                 "rewrites": [("X6", r"located_error!\(\s*SyntaxError::\w+(\([^;]*?\))?,\s*(Some\(self\.location\)|location|Some\(location\))\s*\)", r"syntax_error(\2)", 0, "S")],
                 "contract": """        requires wf_lexer(*old(self)),
        ensures wf_lexer(*final(self)), rem(final(self).peekable_char_stream).len() <= rem(old(self).peekable_char_stream).len(),"""},
             "number": {"props": ["C07", "C09"],
                 "sig_rewrites": [("S1", r"-> Result<Option<TokenData>>$", "-> (r: Result<Option<TokenData>>)")],
                 "attrs": "#[verifier::loop_isolation(false)]",
                 "rewrites": [("X6", r"located_error!\(\s*SyntaxError::\w+(\([^;]*?\))?,\s*(Some\(self\.location\)|location|Some\(location\))\s*\)", r"syntax_error(\2)", 0, "S"), ("X5", r"\bbreak (Ok\()", r"return \1", 0)],
                 "contract": """        requires wf_lexer(*old(self)),
        ensures wf_lexer(*final(self)), rem(final(self).peekable_char_stream).len() <= rem(old(self).peekable_char_stream).len(),
            // a ratio literal never has denominator 0 (relied upon by eval_primitive)
            r matches Ok(Some(TokenData::Primitive(Primitive::Rational(_, d)))) ==> d != 0,""",
                 "loops": {1: {"expect_kw": "loop", "invariant": """            invariant wf_lexer(*self), rem(self.peekable_char_stream).len() <= rem(old(self).peekable_char_stream).len(),
            decreases rem(self.peekable_char_stream).len(),"""}}},

             "try_next": {"props": ["C15", "C07"],
                 "rewrites": [("X6", r"located_error!\(\s*SyntaxError::\w+(\([^;]*?\))?,\s*(Some\(self\.location\)|location|Some\(location\))\s*\)", r"syntax_error(\2)", 0, "S")],
                 "contract": """        requires wf_lexer(*old(self)),
        ensures wf_lexer(*final(self)), rem(final(self).peekable_char_stream).len() <= rem(old(self).peekable_char_stream).len(),
        decreases rem(old(self).peekable_char_stream).len(), 0int,"""},
             "atmosphere": {"props": ["C15", "C07"],
                 "attrs": "#[verifier::loop_isolation(false)]",
                 "contract": """        requires wf_lexer(*old(self)),
        ensures wf_lexer(*final(self)), rem(final(self).peekable_char_stream).len() <= rem(old(self).peekable_char_stream).len(),
        decreases rem(old(self).peekable_char_stream).len(), 1int,""",
                 "loops": {1: {"expect_kw": "while", "invariant": """            invariant wf_lexer(*self), rem(self.peekable_char_stream).len() <= rem(old(self).peekable_char_stream).len(),
            decreases rem(self.peekable_char_stream).len(),"""}}},
             "comment": {"props": ["C15", "C07"],
                 "attrs": "#[verifier::loop_isolation(false)]",
                 "contract": """        requires wf_lexer(*old(self)),
        ensures wf_lexer(*final(self)), rem(final(self).peekable_char_stream).len() <= rem(old(self).peekable_char_stream).len(),
        decreases rem(old(self).peekable_char_stream).len(), 1int,""",
                 "loops": {1: {"expect_kw": "while", "invariant": """            invariant wf_lexer(*self), rem(self.peekable_char_stream).len() <= rem(old(self).peekable_char_stream).len(),
            decreases rem(self.peekable_char_stream).len(),"""}}},
             "normal_identifier": {"props": ["C15", "C07"],
                 "attrs": "#[verifier::loop_isolation(false)]",
                 "rewrites": [("X6", r"located_error!\(\s*SyntaxError::\w+(\([^;]*?\))?,\s*(Some\(self\.location\)|location|Some\(location\))\s*\)", r"syntax_error(\2)", 0, "S")],
                 "contract": """        requires wf_lexer(*old(self)),
        ensures wf_lexer(*final(self)), rem(final(self).peekable_char_stream).len() <= rem(old(self).peekable_char_stream).len(),""",
                 "loops": {1: {"expect_kw": "while", "invariant": """            invariant wf_lexer(*self), rem(self.peekable_char_stream).len() <= rem(old(self).peekable_char_stream).len(),
            decreases rem(self.peekable_char_stream).len(),"""}}},
             "dot_subsequent": {"props": ["C15", "C07"],
                 "attrs": "#[verifier::loop_isolation(false)]",
                 "rewrites": [("X6", r"located_error!\(\s*SyntaxError::\w+(\([^;]*?\))?,\s*(Some\(self\.location\)|location|Some\(location\))\s*\)", r"syntax_error(\2)", 0, "S")],
                 "contract": """        requires wf_lexer(*old(self)),
        ensures wf_lexer(*final(self)), rem(final(self).peekable_char_stream).len() <= rem(old(self).peekable_char_stream).len(),""",
                 "loops": {1: {"expect_kw": "loop", "invariant": """            invariant wf_lexer(*self), rem(self.peekable_char_stream).len() <= rem(old(self).peekable_char_stream).len(),
            decreases rem(self.peekable_char_stream).len(),"""}}},
             "percular_identifier": {"props": ["C15", "C07"],
                 "contract": """        requires wf_lexer(*old(self)),
        ensures wf_lexer(*final(self)), rem(final(self).peekable_char_stream).len() <= rem(old(self).peekable_char_stream).len(),"""},
             "quoted_identifier": {"props": ["C15", "C07"],
                 "attrs": "#[verifier::loop_isolation(false)]",
                 "rewrites": [("X6", r"located_error!\(\s*SyntaxError::\w+(\([^;]*?\))?,\s*(Some\(self\.location\)|location|Some\(location\))\s*\)", r"syntax_error(\2)", 0, "S"), ("X5", r"\bbreak (Ok\()", r"return \1", 0)],
                 "contract": """        requires wf_lexer(*old(self)),
        ensures wf_lexer(*final(self)), rem(final(self).peekable_char_stream).len() <= rem(old(self).peekable_char_stream).len(),""",
                 "loops": {1: {"expect_kw": "loop", "invariant": """            invariant wf_lexer(*self), rem(self.peekable_char_stream).len() <= rem(old(self).peekable_char_stream).len(),
            decreases rem(self.peekable_char_stream).len(),"""}}},
             "string": {"props": ["C15", "C07"],
                 "attrs": "#[verifier::loop_isolation(false)]",
                 "rewrites": [("X6", r"located_error!\(\s*SyntaxError::\w+(\([^;]*?\))?,\s*(Some\(self\.location\)|location|Some\(location\))\s*\)", r"syntax_error(\2)", 0, "S"), ("X5", r"\bbreak (Ok\()", r"return \1", 0)],
                 "contract": """        requires wf_lexer(*old(self)),
        ensures wf_lexer(*final(self)), rem(final(self).peekable_char_stream).len() <= rem(old(self).peekable_char_stream).len(),""",
                 "loops": {1: {"expect_kw": "loop", "invariant": """            invariant wf_lexer(*self), rem(self.peekable_char_stream).len() <= rem(old(self).peekable_char_stream).len(),
            decreases rem(self.peekable_char_stream).len(),"""}}},

         }},
        # rule X11: a trait-impl method cannot carry `requires` in Verus (and Iterator has no next_req): the body of
        # <Lexer as Iterator>::next is verified as an inherent method of the same name (same text, same self type)
        {"kind": "impl", "file": L, "impl": r"^impl<CharIter: Iterator<Item = char>> Iterator for Lexer<CharIter>$",
         "header_rewrites": [("X11", r"impl<CharIter: Iterator<Item = char>> Iterator for Lexer<CharIter>",
                              "impl<CharIter: Iterator<Item = char>> Lexer<CharIter>")],
         "drop_assoc_items": True,
         "methods": {"next": {"props": ["C15", "C07"],
             "sig_rewrites": [("X11", r"-> Option<Self::Item>$", "-> (r: Option<Result<Token>>)")],
             "contract": """        requires wf_lexer(*old(self)),
        ensures
            // every token carries the lexer's own position at the time it was produced, and that position is the
            // position after the text consumed so far (representation invariant)
            r matches Some(Ok(tok)) ==> tok.location == Some(final(self).location),
            wf_lexer(*final(self)),"""}}},
    ],
    "spec": r"""
""",
}
