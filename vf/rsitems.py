"""Small Rust item locator: comment / string / char / lifetime aware scanning with brace matching.

Items are addressed by *path*, never by line number:
    fn NAME                      free function
    impl HEADER_REGEX :: fn NAME method inside the first impl block whose header matches the regex
    enum NAME / struct NAME / type NAME / trait NAME / macro_rules NAME
"""
import re


class AnchorLost(Exception):
    pass


def mask(src):
    """Return a same-length string where comments, string/char literal contents are replaced
    by spaces (newlines kept), so that brace matching and regex search ignore them."""
    out = list(src)
    i, n = 0, len(src)

    def blank(a, b):
        for k in range(a, b):
            if out[k] != "\n":
                out[k] = " "

    while i < n:
        c = src[i]
        if src.startswith("//", i):
            j = src.find("\n", i)
            j = n if j < 0 else j
            blank(i, j)
            i = j
        elif src.startswith("/*", i):
            depth, j = 1, i + 2
            while j < n and depth:
                if src.startswith("/*", j):
                    depth += 1
                    j += 2
                elif src.startswith("*/", j):
                    depth -= 1
                    j += 2
                else:
                    j += 1
            blank(i, j)
            i = j
        elif c == '"' or (c == "b" and src.startswith('b"', i)):
            j = i + (2 if c == "b" else 1)
            while j < n and src[j] != '"':
                j += 2 if src[j] == "\\" else 1
            blank(i + 1, j)
            i = j + 1
        elif c == "r" and re.match(r'r#*"', src[i:i + 12]) and (i == 0 or not (src[i - 1].isalnum() or src[i - 1] == "_")):
            m = re.match(r'r(#*)"', src[i:])
            close = '"' + m.group(1)
            j = src.find(close, i + len(m.group(0)))
            j = n if j < 0 else j + len(close)
            blank(i + 1, j - 1)
            i = j
        elif c == "'":
            # char literal or lifetime
            m = re.match(r"'(\\.[^']*|[^'\\])'", src[i:i + 12])
            if m:
                blank(i + 1, i + len(m.group(0)) - 1)
                i += len(m.group(0))
            else:
                i += 1
        else:
            i += 1
    return "".join(out)


def match_brace(masked, open_pos):
    """masked[open_pos] is one of ([{ ; return index of the matching closer."""
    pairs = {"(": ")", "[": "]", "{": "}"}
    o = masked[open_pos]
    c = pairs[o]
    depth = 0
    for k in range(open_pos, len(masked)):
        ch = masked[k]
        if ch == o:
            depth += 1
        elif ch == c:
            depth -= 1
            if depth == 0:
                return k
    raise AnchorLost("unbalanced %s at %d" % (o, open_pos))


def _attr_start(src, masked, pos):
    """Walk back from an item keyword over attributes / doc comments / visibility to the item start."""
    start = pos
    # back over `pub`, `pub(crate)`, `unsafe`, `const`, `async`, `default`
    while True:
        m = re.search(r"(pub(\s*\([^)]*\))?|unsafe|const|async|default)\s*$", masked[:start])
        if not m:
            break
        start = m.start()
    # back over attribute lines and doc comments
    while True:
        line_start = src.rfind("\n", 0, start - 1) + 1 if start > 0 else 0
        prev_end = line_start - 1
        if prev_end <= 0:
            break
        prev_start = src.rfind("\n", 0, prev_end) + 1
        prev = src[prev_start:prev_end].strip()
        if src[line_start:start].strip() != "":
            break
        if prev.startswith("#[") or prev.startswith("///") or prev.startswith("#!["):
            start = prev_start
        else:
            break
    return start


class Item:
    def __init__(self, src, start, kw_pos, body_open, end):
        self.src = src
        self.start = start          # including attributes
        self.kw_pos = kw_pos        # position of the keyword (fn/enum/...)
        self.body_open = body_open  # index of '{' (or None for `;` items)
        self.end = end              # one past the closing '}' / ';'

    @property
    def text(self):
        return self.src[self.start:self.end]

    @property
    def text_no_attrs(self):
        return self.src[self._vis_start():self.end]

    def _vis_start(self):
        masked = mask(self.src)
        s = self.kw_pos
        while True:
            m = re.search(r"(pub(\s*\([^)]*\))?|unsafe|const|async|default)\s*$", masked[:s])
            if not m:
                break
            s = m.start()
        return s

    @property
    def signature(self):
        return self.src[self._vis_start():self.body_open].rstrip()

    @property
    def body(self):
        return self.src[self.body_open:self.end]

    @property
    def line(self):
        return self.src.count("\n", 0, self.kw_pos) + 1


def _find_keyword_items(src, masked, kw, name, lo=0, hi=None):
    hi = len(src) if hi is None else hi
    if kw == "macro_rules":
        pat = re.compile(r"\bmacro_rules!\s+%s\b" % re.escape(name))
    else:
        pat = re.compile(r"\b%s\s+%s\b" % (kw, re.escape(name)))
    for m in pat.finditer(masked, lo, hi):
        yield m.start()


def _item_from_kw(src, masked, kw_pos):
    # find the first '{' or ';' at paren/bracket depth 0 after kw_pos
    k = kw_pos
    depth = 0
    angle = 0
    n = len(masked)
    while k < n:
        ch = masked[k]
        if ch in "([":
            k = match_brace(masked, k)
        elif ch == "{" :
            close = match_brace(masked, k)
            return Item(src, _attr_start(src, masked, kw_pos), kw_pos, k, close + 1)
        elif ch == ";":
            return Item(src, _attr_start(src, masked, kw_pos), kw_pos, None, k + 1)
        k += 1
    raise AnchorLost("no body for item at %d" % kw_pos)


def depth_at(masked, pos, lo=0):
    d = 0
    for ch in masked[lo:pos]:
        if ch == "{":
            d += 1
        elif ch == "}":
            d -= 1
    return d


def find_impl(src, header_regex, nth=0):
    """Find the nth impl block whose header (text between `impl` and `{`) matches header_regex."""
    masked = mask(src)
    count = 0
    for m in re.finditer(r"\bimpl\b", masked):
        if depth_at(masked, m.start()) != 0:
            continue
        it = _item_from_kw(src, masked, m.start())
        header = " ".join(src[m.start():it.body_open].split())
        if re.search(header_regex, header):
            if count == nth:
                return it
            count += 1
    raise AnchorLost("impl block matching /%s/ (#%d) not found" % (header_regex, nth))


def find_fn(src, name, impl_regex=None, impl_nth=0):
    masked = mask(src)
    if impl_regex is None:
        for pos in _find_keyword_items(src, masked, "fn", name):
            if depth_at(masked, pos) == 0:
                return _item_from_kw(src, masked, pos)
        raise AnchorLost("fn %s not found at top level" % name)
    # search all matching impl blocks for the method
    n = impl_nth
    while True:
        try:
            imp = find_impl(src, impl_regex, n)
        except AnchorLost:
            break
        for pos in _find_keyword_items(src, masked, "fn", name, imp.body_open, imp.end):
            if depth_at(masked, pos, imp.body_open) == 1:
                return _item_from_kw(src, masked, pos)
        n += 1
    raise AnchorLost("fn %s not found in impl /%s/" % (name, impl_regex))


def find_item(src, kw, name):
    masked = mask(src)
    for pos in _find_keyword_items(src, masked, kw, name):
        if depth_at(masked, pos) == 0:
            return _item_from_kw(src, masked, pos)
    raise AnchorLost("%s %s not found" % (kw, name))


def strip_attrs_and_docs(text):
    """Rule X1: drop #[...] attribute lines and doc comments in front of an item and inside enums."""
    out = []
    for ln in text.split("\n"):
        s = ln.strip()
        if s.startswith("#[") and s.endswith("]"):
            continue
        if s.startswith("///"):
            continue
        out.append(ln)
    return "\n".join(out)


def loops_in(body_text):
    """Positions (relative to body_text) of loop headers `for`/`while`/`loop` in source order, with the
    index of their opening '{'.  Returns list of (kw, kw_pos, open_brace_pos, close_brace_pos)."""
    masked = mask(body_text)
    res = []
    for m in re.finditer(r"\b(for|while|loop)\b", masked):
        kw = m.group(1)
        # skip `for` in `impl X for Y` / HRTB: inside fn bodies those do not occur
        k = m.end()
        n = len(masked)
        # find the block '{' that starts the loop body: first '{' at paren depth 0 that is not
        # part of a struct literal -- for Rust loop headers, struct literals are not allowed
        # unparenthesised, so the first depth-0 '{' is the body.
        while k < n:
            ch = masked[k]
            if ch in "([":
                k = match_brace(masked, k)
            elif ch == "{":
                break
            k += 1
        if k >= n:
            continue
        close = match_brace(masked, k)
        res.append((kw, m.start(), k, close))
    return res
