#!/bin/bash
# usage: vf/sweep.sh  -- every seeded change against the check of its own property (and C07 where the change is not about panics),
# then every behaviour-preserving change of benign/ against the checks of the functions it touches (listed in benign/PROPS).
cd /verif
for d in seeded/*/; do
  n=$(basename $d); p=${n%%-*}; p=$(echo $p | sed 's/[a-z]$//')
  extra=""
  case "$p" in C09|C10|C08|C02) extra="C07";; esac
  echo "== $n -> $p $extra"
  python3 -m vf.seedtest seeded/$n $p $extra 2>&1 | grep -v "^      " | cut -c1-220
done
while read -r name props; do
  [ -z "$name" ] && continue
  echo "== benign/$name -> $props"
  python3 -m vf.seedtest benign/$name $props 2>&1 | grep -v "^      " | cut -c1-220
done < benign/PROPS
echo SWEEP-DONE
