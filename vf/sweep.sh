#!/bin/bash
# usage: vf/sweep.sh  -- every seeded change against the check of its own property (and, where listed, others)
cd /verif
for d in seeded/*/; do
  n=$(basename $d); p=${n%%-*}; p=${p%b}
  extra=""
  case "$p" in C09|C10|C08|C02) extra="C07";; esac
  echo "== $n -> $p $extra"
  python3 -m vf.seedtest seeded/$n $p $extra 2>&1 | grep -v "^      " | cut -c1-220
done
echo SWEEP-DONE
