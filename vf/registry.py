"""Which units decide which property."""

TRUSTED_BASE = [
    "rustc 1.98.1 front end, Verus 0.2026.09.13 (VIR/AIR encoding), Z3 (Verus' bundled solver)",
    "vstd specifications of core/alloc (Option, Result, integer ops, str::Chars iterator laws, rust_div/rust_rem)",
    "Kani 0.68.0 / CBMC 6.11.0 / CaDiCaL / cvc5 for the harnesses listed under by_backend.kani",
    "the extraction rules X1..X9 of DESIGN.md 3.2 (syntactic; every application is listed in extraction_rules_applied)",
    "i32/i64 overflow is an error for both verifiers (debug-build semantics, which is what the test-suite runs)",
]

KANI_UNITS = {
    "values": {"name": "values", "file": "src/values.rs", "harness": "values.harness.rs", "modpath": "values"},
}

NATIVE_UNITS = {
    "complete_witness": {"file": "src/repl.rs", "source": "repl_complete.rs", "modpath": "repl",
                         "test": "verif_native_complete_witness", "role": "witness",
                         "for_fns": ["check_bracket_closed", "witness_caller"]},
    "complete_oracle": {"file": "src/repl.rs", "source": "repl_complete.rs", "modpath": "repl",
                        "test": "verif_native_complete_oracle", "role": "oracle", "tier": "thorough"},
}

PROPS = {
    "C18": {
        "verus": ["repl_complete"], "kani": [], "native": ["complete_witness", "complete_oracle"],
        "level": "proof",
        "explanation": "check_bracket_closed (the REPL's completeness test) is proved equal, for texts of any length, "
                       "to a reader-derived state machine; split-invariance of that machine is a proved lemma.",
        "unverified": ["repl::run_with_interpreter (rustyline terminal loop, printing, history): no contract within reach",
                       "the spec state machine is a hand transcription of lexer.rs (trusted; sanity-checked against the real "
                       "Lexer on all texts of length <= 6 over an 11-character alphabet in the thorough tier)"],
        "assumptions": ["a submission has fewer than 2^31 characters (the i32 nesting counter)",
                        "rule X4: check_bracket_closed is instantiated at str::Chars, the type of its only call site (checked each run)"],
    },
    "C09": {
        "verus": ["values_num"], "kani": ["values"], "native": [],
        "level": "proof",
        "explanation": "Every arithmetic operation of Number is proved against rational-arithmetic postconditions for ALL i32 "
                       "operands (Verus, mathematical integers) and for an abstract inexact type R (contagion by congruence); "
                       "the facts assumed about R are checked at R = f32 by loop-free full-domain Kani harnesses.",
        "unverified": ["n-ary folds of the builtins + - * / (base.rs): iterator adapters over Value",
                       "floor_remainder's 'always exact below 2^15' clause is decided by the thorough-tier Kani harness only",
                       "sqrt/exp/ln/... and `exact` (not part of the statement)"],
        "assumptions": ["R's operators are total functions of their operands (trait-level assumption real_ops_are_total_functions; true of f32)",
                        "Rust's f32 + - * / abs floor ceil are the IEEE-754 binary32 operations"],
    },
    "C10": {
        "verus": ["values_num"], "kani": ["values"], "native": [],
        "level": "proof",
        "explanation": "PartialEq::eq / PartialOrd::partial_cmp / exact_eqv of Number are proved to be the order of the rationals "
                       "on every pair of representations with positive denominators (all i32), and the comparison of the "
                       "converted operands when one is inexact.",
        "unverified": ["comparison chains and max/min folds of the builtins (base.rs, macro-generated)",
                       "`<`, `<=`, `>`, `>=` are std's default methods derived from partial_cmp (trusted std)"],
        "assumptions": ["R's == and partial_cmp are functions of their operands (obeys_eq_spec / obeys_partial_cmp_spec)"],
    },
}
