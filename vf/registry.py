"""Which units decide which property."""

TRUSTED_BASE = [
    "rustc 1.98.1 front end, Verus 0.2026.09.13 (VIR/AIR encoding), Z3 (Verus' bundled solver)",
    "vstd specifications of core/alloc (Option, Result, integer ops, str::Chars iterator laws, rust_div/rust_rem)",
    "Kani 0.68.0 / CBMC 6.11.0 / CaDiCaL / cvc5 for the harnesses listed under by_backend.kani",
    "the extraction rules X1..X9 of DESIGN.md 3.2 (syntactic; every application is listed in extraction_rules_applied)",
    "i32/i64 overflow is an error for both verifiers (debug-build semantics, which is what the test-suite runs)",
]

KANI_UNITS = {
    "folds": {"name": "folds", "file": "src/interpreter/library/native/base.rs", "harness": "folds.harness.rs",
              "modpath": "interpreter::library::native::base"},
    "valref": {"name": "valref", "file": "src/values.rs", "harness": "valref.harness.rs", "modpath": "values"},
    "macros": {"name": "macros", "file": "src/parser/macros.rs", "harness": "macros.harness.rs", "modpath": "parser::macros"},
    "values": {"name": "values", "file": "src/values.rs", "harness": "values.harness.rs", "modpath": "values"},
}

NATIVE_UNITS = {
    "lexer_position_witness": {"file": "src/parser/lexer.rs", "source": "lexer_position.rs", "modpath": "parser::lexer",
                               "test": "verif_native_lexer_position_witness", "role": "witness",
                               "for_fns": ["advance", "next", "try_next", "atmosphere", "comment", "normal_identifier", "dot_subsequent",
                                           "percular_identifier", "quoted_identifier", "string", "number", "digital10",
                                           "number_suffix", "real", "from_char_stream"]},
    "panic_probe": {"file": "src/interpreter/interpreter.rs", "source": "panic_probe.rs",
                    "modpath": "interpreter::interpreter", "test": "verif_native_panic_probe",
                    "role": "witness", "for_fns": ["pop_proper", "pop", "number", "digital10", "number_suffix", "real",
                                                   "eval_primitive", "from_pair_iter"]},
    "eval_location_witness": {"file": "src/interpreter/interpreter.rs", "source": "eval_location.rs",
                              "modpath": "interpreter::interpreter", "test": "verif_native_eval_location_witness",
                              "role": "witness", "for_fns": ["eval_expression"]},
    "eval_kind_witness": {"file": "src/interpreter/interpreter.rs", "source": "eval_location.rs",
                          "modpath": "interpreter::interpreter", "test": "verif_native_eval_kind_witness",
                          "role": "witness", "for_fns": ["eval_expression"]},
    "tail_arity_witness": {"file": "src/interpreter/interpreter.rs", "source": "tail_arity.rs",
                           "modpath": "interpreter::interpreter", "test": "verif_native_tail_arity_witness",
                           "role": "witness", "for_fns": ["apply_procedure"]},
    "import_witness": {"file": "src/interpreter/interpreter.rs", "source": "import_sets.rs",
                       "modpath": "interpreter::interpreter", "test": "verif_native_import_witness",
                       "role": "witness", "for_fns": ["eval_import_set", "eval_import"]},
    "import_cycle_witness": {"file": "src/interpreter/interpreter.rs", "source": "import_sets.rs",
                             "modpath": "interpreter::interpreter", "test": "verif_native_import_cycle_witness",
                             "role": "witness", "for_fns": ["eval_import_set"]},
    "vector_kind_witness": {"file": "src/interpreter/interpreter.rs", "source": "vector_builtins.rs",
                            "modpath": "interpreter::interpreter", "test": "verif_native_vector_kind_witness", "role": "witness",
                            "for_fns": ["vector_ref", "vector_set", "make_vector", "vector_length", "vector", "car", "cdr", "cons", "is_pair", "not", "apply", "abs", "floor", "ceiling", "exact"]},
    "vector_panic_witness": {"file": "src/interpreter/interpreter.rs", "source": "vector_builtins.rs",
                             "modpath": "interpreter::interpreter", "test": "verif_native_vector_panic_witness", "role": "witness",
                             "for_fns": ["vector_ref", "vector_set", "make_vector", "vector_length", "vector", "car", "cdr", "cons", "is_pair", "not", "apply", "abs", "floor", "ceiling", "exact"]},
    "vector_identity_witness": {"file": "src/interpreter/interpreter.rs", "source": "vector_builtins.rs",
                                "modpath": "interpreter::interpreter", "test": "verif_native_vector_identity_witness", "role": "witness",
                                "for_fns": ["vector_ref", "make_vector", "vector_length", "vector", "vector_set", "as_mut", "ptr_eq", "read_literal"]},
    "macro_witness": {"file": "src/interpreter/interpreter.rs", "source": "macro_rules.rs",
                      "modpath": "interpreter::interpreter", "test": "verif_native_macro_witness", "role": "witness",
                      "for_fns": ["match_datum", "transform"]},
    "library_witness": {"file": "src/interpreter/interpreter.rs", "source": "library_instances.rs",
                        "modpath": "interpreter::interpreter", "test": "verif_native_library_witness", "role": "witness",
                        "for_fns": ["eval_library_definition", "get_library"]},
    "tail_space_witness": {"file": "src/interpreter/interpreter.rs", "source": "tail_space.rs",
                           "modpath": "interpreter::interpreter", "test": "verif_native_tail_space_witness", "role": "witness",
                           "for_fns": ["eval_tail_expression", "eval_owned_tail_expression", "apply_procedure", "eval_procedure_call"]},
    "apply_tail_known": {"file": "src/interpreter/interpreter.rs", "source": "tail_space.rs",
                         "modpath": "interpreter::interpreter", "test": "verif_native_apply_tail_known", "role": "known",
                         "finding": "apply-not-a-tail-call"},
    "template_location_known": {"file": "src/interpreter/interpreter.rs", "source": "eval_location.rs",
                                "modpath": "interpreter::interpreter", "test": "verif_native_template_location_known", "role": "known",
                                "finding": "template-location"},
    "callee_location_known": {"file": "src/interpreter/interpreter.rs", "source": "eval_location.rs",
                              "modpath": "interpreter::interpreter", "test": "verif_native_callee_location_known", "role": "known",
                              "finding": "callee-body-location"},
    "core_eval_witness": {"file": "src/interpreter/interpreter.rs", "source": "core_eval.rs",
                          "modpath": "interpreter::interpreter", "test": "verif_native_core_eval_witness", "role": "witness",
                          "for_fns": ["eval_expression", "as_boolean", "read_literal", "eval_primitive", "apply_scheme_procedure", "apply", "eval_expression_or_definition"]},
    "after_error_witness": {"file": "src/interpreter/interpreter.rs", "source": "vector_builtins.rs",
                            "modpath": "interpreter::interpreter", "test": "verif_native_after_error_witness", "role": "witness", "for_fns": []},
    "tail_arity_panic": {"file": "src/interpreter/interpreter.rs", "source": "tail_arity.rs",
                         "modpath": "interpreter::interpreter", "test": "verif_native_tail_arity_panic",
                         "role": "witness", "for_fns": ["apply_procedure"]},
    "lexer_token_witness": {"file": "src/parser/lexer.rs", "source": "lexer_tokens.rs", "modpath": "parser::lexer",
                            "test": "verif_native_lexer_token_witness", "role": "witness",
                            "for_fns": ["try_next", "atmosphere", "comment", "normal_identifier", "dot_subsequent",
                                        "percular_identifier", "quoted_identifier", "string", "number", "digital10",
                                        "number_suffix", "real", "next", "parse_number", "test_delimiter", "is_identifier_initial"]},
    "hash_token_known": {"file": "src/parser/lexer.rs", "source": "lexer_tokens.rs", "modpath": "parser::lexer",
                         "test": "verif_native_hash_token_known", "role": "known", "finding": "hash-token-not-delimited"},
    "sign_dot_known": {"file": "src/parser/lexer.rs", "source": "lexer_tokens.rs", "modpath": "parser::lexer",
                       "test": "verif_native_sign_dot_known", "role": "known", "finding": "sign-dot-identifier-rejected"},
    "reader_witness": {"file": "src/interpreter/interpreter.rs", "source": "reader_data.rs", "modpath": "interpreter::interpreter",
                       "test": "verif_native_reader_witness", "role": "witness",
                       "for_fns": ["datum", "current_datum", "parse_quoted", "vector", "advance", "advance_unwrap", "peek_next_token", "unwrap_non_end", "locate",
                                   "read_literal", "eval_primitive"]},
    "complete_witness": {"file": "src/repl.rs", "source": "repl_complete.rs", "modpath": "repl",
                         "test": "verif_native_complete_witness", "role": "witness",
                         "for_fns": ["check_bracket_closed", "witness_caller"]},
    "complete_oracle": {"file": "src/repl.rs", "source": "repl_complete.rs", "modpath": "repl",
                        "test": "verif_native_complete_oracle", "role": "oracle", "tier": "thorough"},
}

_TAIL_UNVERIFIED = [
    "eval_expression, eval_procedure_call, apply_scheme_procedure (iterator adapters / closures / RefCell frames): assumed contracts",
    "the derived forms of grammar.sld keep their last sub-form in tail position (Scheme text, see C05)",
    "stack depth and live heap as such: no contract language here measures them; the per-function facts the anchors name are what is proved",
]

PROPS = {
    "C13": {
        "verus": ["interp_library", "interp_loader"], "kani": [], "native": ["library_witness"],
        "level": "proof",
        "explanation": "Interpreter::eval_library_definition is proved, for library definitions of any size, to evaluate the library's "
                       "imports and body in a frame of its own (created by Environment::new(): no parent, so nothing of the importer is "
                       "visible in it -- every call into the evaluator requires exactly that frame) and to build a library that holds "
                       "exactly the bindings of its export specs, in order: external name |-> what the internal name is bound to in that "
                       "frame (rename exports under the external name only; an export of an unbound name is an error, never a binding). "
                       "Interpreter::get_library (unit interp_loader) is proved to hand out the EXISTING instance of a library that has one "
                       "(changing nothing), and otherwise to record the instance it loads under the library's name while keeping every other "
                       "instance: all imports of a library within one program refer to one instance.",
        "unverified": ["new_library (instantiation) and register_library_factory: not under contract (get_library's contract ASSUMES that "
                       "instantiating a library keeps every existing instance)",
                       "that the importer gains only what eval_import_set returns (eval_import: HashMap::extend + define, not under contract)",
                       "that redefining an imported name in the importer does not affect the library's procedures: closures capture the "
                       "library's frame (evaluator semantics, C01) -- covered by the witness search only"],
        "assumptions": ["LexicalScope::get is a function of the frame and the name while the exports are collected (no evaluation happens in that loop)",
                        "HashMap::insert, Vec::extend behave as documented (wrappers / opaque type)"],
    },
    "C12": {
        "verus": ["interp_import", "interp_import_union"], "kani": [], "native": ["import_witness"],
        "level": "proof",
        "explanation": "Interpreter::eval_import_set is proved, for import sets nested to any depth, against the import-set algebra as a "
                       "recursive relation: a library contributes exactly its exports; only keeps exactly the listed names, except drops "
                       "exactly the listed names, prefix puts the prefix in front of every name, rename replaces the listed names (the "
                       "last pair for a name wins) and leaves the others -- every binding keeps the value it had under its original name; "
                       "an error of the inner set is passed on unchanged. "
                       "Interpreter::eval_import (unit interp_import_union) is proved to define in the importing frame every binding of the "
                       "UNION of its import sets, a later set winning on a name several sets bind.",
        "unverified": ["that eval_import defines NOTHING ELSE in the frame (define is a history fact here: the frame's state is outside Verus)",
                       "'the outcome is the same on every run': the ORDER of a library's export list comes from a HashMap",
                       "Library::iter_definitions and the std adapters filter/map/collect, HashSet/HashMap construction: assumed contracts (wrappers)"],
        "assumptions": ["the std iterator adapters and hash collections behave as their documentation says (wrappers listed under trusted)"],
    },
    "C14": {
        "verus": ["interp_import_cycle"], "kani": [], "native": ["import_cycle_witness"],
        "level": "proof",
        "explanation": "The cycle detector of eval_import_set is proved as a frame condition: the set of libraries whose import is in "
                       "progress is the same on EVERY exit as on entry (so a failed import leaves no trace and the outcome of a later "
                       "import cannot depend on it), a library that is already in progress is the cyclic-import error located at its "
                       "name, and otherwise the outcome is exactly that of loading the library (its error passed on unchanged).",
        "unverified": ["termination of library loading (get_library -> file reading, parsing, evaluation of the library body): no "
                       "decreases clause can be stated over the file system",
                       "that a cycle is REACHED exactly when the graph has one (needs the recursion through get_library / "
                       "eval_library_definition under contract), missing / unreadable / malformed files, the program-directory rule"],
        "assumptions": ["get_library leaves the in-progress set as it found it -- the statement proved for eval_import_set itself, assumed "
                        "for the nested imports it performs (induction on the nesting depth of imports)",
                        "derive(Hash, Eq) make LibraryName a lawful HashSet key (vstd obeys_key_model)"],
    },
    "C06": {
        "verus": ["lexer_tok", "parser_reader", "interp_literal"], "kani": [], "native": ["lexer_token_witness", "hash_token_known", "sign_dot_known", "reader_witness"],
        "level": "proof",
        "explanation": "The lexer half of the reader: every scanner function of Lexer is proved, for texts of any length, against a "
                       "relation between the text at the start of a token, the token produced and the text left over. Whitespace and "
                       "`;` comments in front of a token are skipped and nothing else depends on them (try_next's contract mentions the "
                       "text only through next_start; lemmas leading_whitespace_is_ignored / comment_line_is_ignored); identifiers "
                       "(ordinary, peculiar, |quoted|) carry exactly the characters they were read from and ordinary / peculiar "
                       "identifiers and all numbers end only at a delimiter or the end of the text; a string literal's contents are its "
                       "characters with the mnemonic escapes translated; an integer / ratio token is str::parse of its digits (ratio: "
                       "denominator not zero), a decimal's literal text is the characters consumed; ( ) ' ` , ,@ #( #u8( #t #f #\\c . map to their tokens. "
                       "The reader proper (unit parser_reader): Parser::datum / current_datum / parse_quoted / vector / advance / advance_unwrap / "
                       "peek_next_token are proved, for token sequences of any length, against a recursive definition of the datum a token "
                       "sequence denotes (rd_tok / rd_at / rd_list / rd_vec, R7RS 7.1.2): which datum each token starts, that 'x is (quote x) at any "
                       "nesting, and that reading stops exactly after the datum -- relative to ASSUMED contracts of the two loops (see unverified). "
                       "Data to values (unit interp_literal): Interpreter::read_literal / eval_primitive are proved against the relation lit(datum, value): "
                       "a symbol is that symbol, a literal token its value (character, string, boolean, integer; a ratio is from_ratio of its parts), a list "
                       "the list of the values with the same dotted tail, a vector the vector of the values; every datum without a decimal has a value.",
        "unverified": ["Parser::current_list_or_pair (the list / dotted-tail loop: a &mut cursor into the list being built) and Parser::repeat "
                       "(the vector loop: a lazy iterator of closures over &mut self) are outside Verus: their contracts (rd_list, rd_vec) are ASSUMED; "
                       "they are checked only by the BOUNDED enumeration of reader_witness (every token sequence of length <= 6 over ( ) . ' #( a 1 "
                       "against an independent reference reader: structure and number of tokens consumed) -- bounded, not counted as proved",
                       "the value of a decimal literal (f32/f64 FromStr at evaluation time) and of str::parse on digits (std)",
                       "GenericPair::map_ok_ref (pair.rs, generic recursion) and slice.iter().map().collect(): ASSUMED traversal contracts in unit interp_literal",
                       "string escapes \\x<hex>; and \\<space> (not translated by this lexer: stated as unspecified in scan_string)",
                       "#true / #false / character names (#\\space ...): not supported by the lexer"],
        "assumptions": ["fewer than 2^32 characters (u32 position counters)",
                        "std::iter::Peekable::next / peek yield / show the head of the remaining input",
                        "str::parse::<T> is a function of the text (uninterpreted)"],
    },
    "C03": {
        "verus": ["valref_mut", "base_pairs_identity", "interp_literal_const"], "kani": ["valref"], "native": ["vector_identity_witness"],
        "level": "other",
        "explanation": "BOUNDED stand-in (vectors of length 3 at element type u8, kani::unwind 6), not a proof: on ValueReference<Vec<T>> -- the "
                       "type Value::Vector is built on -- a clone is the same object (ptr_eq) and a write through either alias is seen "
                       "through the other; two separately created vectors are distinct and never see each other's writes; a literal "
                       "(immutable) vector rejects mutation with RequiresMutable and keeps its contents; ptr_eq never relates a mutable "
                       "and an immutable reference. The set!/frame half of C03 (LexicalScope over Rc<cell::RefCell<HashMap<String,_>>>) "
                       "is outside both verifiers. "
                       "UNBOUNDED (Verus, unit base_pairs_identity): the builtins vector / make-vector / vector-length / vector-ref / vector-set! "
                       "over a ghost contents function of the shared cell: (vector a ...) holds exactly its arguments, every slot of "
                       "(make-vector n x) IS x, vector-ref returns the element held, vector-set! on a mutable vector stores exactly the given "
                       "object at exactly that index of THE vector passed, on a literal vector it is the RequiresMutable error. "
                       "UNBOUNDED (Verus, unit interp_literal_const): Interpreter::read_literal turns a vector datum -- quoted or self-evaluating, at "
                       "every nesting depth inside lists and vectors -- into an IMMUTABLE vector object (new_immutable) holding the values of its elements: "
                       "a literal vector is a constant.",
        "unverified": ["set! and frames: LexicalScope::set/get/define, a fresh child frame per call in apply_scheme_procedure",
                       "that releasing a RefMut guard publishes the write to every alias (the meaning of the ghost `stored`): Rc<RefCell> semantics, "
                       "checked only by the bounded Kani harnesses of unit valref and the witness search vector_identity_witness",
                       "vectors longer than 3, element types other than u8 (parametricity in T is not machine-checked)"],
        "assumptions": ["RefCell's dynamic borrow state is not modelled by Verus (a double borrow_mut would panic); Kani executes the real RefCell"],
    },
    "C07": {
        "verus": ["pair_pop", "values_num", "interp_tail", "interp_eval", "repl_complete", "macro_transform", "macro_match", "lexer_pos", "base_cmp", "base_folds", "base_pairs",
                  "interp_import", "interp_import_union", "interp_library", "interp_loader", "parser_reader", "interp_literal"],
        "kani": ["values", "folds"], "native": ["panic_probe", "tail_arity_panic", "vector_panic_witness"],
        "level": "proof",
        "explanation": "Panic-freedom (no overflow, no failing unwrap/expect, no reachable todo!/unreachable!/panic!, no out-of-bounds index) "
                       "is proved per function for the named set: it is part of what Verus checks when it verifies a function body.",
        "unverified": ["whole-pipeline panic-freedom for arbitrary text would need every function reachable from eval under contract "
                       "(reader, expander, evaluator, 60 builtins); only the named functions are proved",
                       "ParameterFormals::as_name (unreachable!() for nested formals such as ((lambda ((a) b) a) 1 2)): its safety is an "
                       "invariant established by transform_formals (closures + generic recursion, outside Verus)",
                       "file_char_stream (line.unwrap() on invalid UTF-8): file I/O, no model",
                       "'after the error the same interpreter still evaluates further input': a history property"],
        "assumptions": [],
    },
    "C15": {
        "verus": ["lexer_pos", "interp_loc", "interp_eval"], "kani": [], "native": ["lexer_position_witness", "eval_location_witness", "template_location_known", "callee_location_known"],
        "level": "proof",
        "explanation": "Two of the stages through which locations are threaded are proved for all inputs: Lexer::advance maintains the exact "
                       "1-based line and the column recurrence over the consumed prefix (so a token's position is never on an earlier line "
                       "than any character consumed before it and never beyond the text), Lexer::next stamps every token with that position, "
                       "from_char_stream starts at (1,1); Interpreter::eval_ast keeps an inner error location and fills a missing one with "
                       "the statement's own location.",
        "unverified": ["data and expressions inheriting token locations in parser.rs (transform_to_statement, current_datum ...)",
                       "template-built data take the TEMPLATE's location (macros.rs substitude): known finding template-location, demonstrated on every run",
                       "errors raised inside builtins and library procedures carry no location of their own: eval_ast's fall-back gives "
                       "them the statement's location (proved); tail calls of a non-procedure likewise"],
        "assumptions": ["fewer than 2^32 lines and columns (u32 counters)", "std::iter::Peekable::next yields and drops the head of the remaining input"],
    },
    "C04": {
        "verus": ["macro_transform", "macro_match"], "kani": ["macros"], "native": ["macro_witness"],
        "level": "proof",
        "explanation": "UserDefinedTransformer::transform is proved, for rule sets and uses of any size, to expand with the FIRST rule "
                       "(in textual order) whose pattern matches and to return the MacroMissMatch syntax error when none matches "
                       "(matcher and template filler as uninterpreted relations); SyntaxPattern::match_datum is proved on scalar "
                       "patterns: literal data match only equal data, _ matches anything, list/vector patterns never match a scalar. "
                       "SyntaxPattern::match_datum itself is under contract in Verus (unit macro_match): _ and pattern variables match any form "
                       "(a variable is bound to exactly that form), a literal identifier matches only the same symbol and binds nothing, literal "
                       "data match only equal data, any other pairing of a non-list pattern with a datum does not match.",
        "unverified": ["BOUNDED (not proof): macro_witness compares the real expander with a reference matcher on 40 820 (pattern, datum) pairs of a stated ellipsis-free class (patterns: atoms a b x(literal) _ 1 and lists of length <= 2 over atoms, (), (atom); data likewise, also with dotted tails)",
                       "sub-lists, vectors and ellipsis (match_datum_stream: an uninterpreted relation in unit macro_match); template filling (substitude*); String / Real literal data; rule construction "
                       "(transform_transformer/transform_pattern/transform_template in parser.rs): a breakage confined to these is not detected"],
        "assumptions": ["kani::stub: RandomState::new replaced by fixed keys (no hashing happens on the verified arms)"],
    },
    "C02": {
        "verus": ["interp_tail"], "kani": [], "native": ["tail_space_witness", "apply_tail_known"],
        "level": "proof",
        "explanation": "eval_tail_expression / eval_owned_tail_expression are proved to RETURN a call in tail position (same operator, "
                       "operands and frame) instead of performing it, to evaluate only the test of a tail `if`, and to select the arm "
                       "by truthiness; apply_procedure is proved to continue a tail call by rebinding (it holds no permission to call "
                       "itself), on exactly the pending call handed back by apply_scheme_procedure; TailCall::as_ref returns the stored components.",
        "unverified": _TAIL_UNVERIFIED,
        "assumptions": ["functional oracle for the opaque evaluator: one evaluation of the test and two are not distinguished"],
    },
    "C08": {
        "verus": ["interp_tail", "interp_eval_kind", "values_num", "valref_mut", "base_cmp", "base_pairs"], "kani": ["values"], "native": ["tail_arity_witness", "eval_kind_witness", "vector_kind_witness", "after_error_witness"],
        "level": "proof",
        "explanation": "The argument-count test is proved to hold before EVERY hand-over to apply_scheme_procedure / a builtin body in the "
                       "trampoline loop (first call and every tail call), and an unacceptable count is proved to yield the ArgumentMissMatch "
                       "kind; division by exact zero is proved to be the DivisionByZero error (C09 unit).",
        "unverified": _TAIL_UNVERIFIED + ["unbound variables (LexicalScope over RefCell<HashMap>), the builtins' use of the (proved) expect_* type tests, "
                                          "vector index checks, 'keeps exactly the effects completed before the error' (a statement about histories)"],
        "assumptions": ["library_map registers every builtin body with its own parameter list (axiom_builtin_table)"],
    },
    "C01": {
        "verus": ["interp_eval_value", "interp_tail_value", "interp_apply", "base_pairs_apply", "interp_toplevel"], "kani": [], "native": ["core_eval_witness"],
        "level": "proof",
        "explanation": "The control skeleton of the evaluator only. Interpreter::eval_expression is proved, for expressions of any size, against a "
                       "big-step relation over the expression structure (the same relation as in C08 / C15, here with the clauses about WHICH VALUE "
                       "an expression has switched on and those about the kind and location of errors switched off): `if` evaluates the test and "
                       "then exactly the selected arm, and only #f selects the alternative (Value::as_boolean is proved to be `not #f`); a call evaluates the "
                       "operator, then every operand, passes on the first error, and applies the procedure to exactly the sequence of the operands' values; "
                       "a lambda expression is a closure over the CURRENT frame; a quoted datum / literal is what read_literal / eval_primitive give "
                       "(their own contracts: unit interp_literal, claimed under C06). Frames (unit interp_apply): Interpreter::apply_scheme_procedure is proved "
                       "to create ONE fresh frame per call as a child of the frame the procedure was created in (Environment::new_child(closure)) and to define every "
                       "parameter and internal definition, and evaluate every internal definition's value and every body expression, IN THAT FRAME (a ghost "
                       "permission that only new_child grants and that define / eval_expression / eval_tail_expression demand), the last body expression in tail "
                       "position. The builtin apply (unit base_pairs_apply): (apply proc a1 ... an list) applies proc, through apply_procedure, to exactly a1 ... an "
                       "followed by the elements of list. Top-level statements (unit interp_toplevel): Interpreter::eval_expression_or_definition yields the value of an "
                       "expression statement in the frame given; a definition evaluates its expression in that frame and binds the name to exactly that value in "
                       "THAT frame (a history fact on define) and yields no value. Variable lookup inside a frame chain and the binding of the fixed parameters are NOT proved: "
                       "for them there is only the witness grid core_eval_witness (about 95 programs over the core forms with the value R7RS assigns: lexical scope, "
                       "fixed / rest parameters, define sugar, operands evaluated once, internal definitions, higher-order procedures, apply), a test, not a proof.",
        "unverified": ["variable lookup and assignment (LexicalScope::get / set over Rc<RefCell<HashMap<String, Value>>>): no contract -- `innermost binding` is not proved",
                       "the binding of the fixed parameters (an FnMut closure over the argument iterator inside apply_scheme_procedure: replaced by a wrapper with an ASSUMED "
                       "contract, rule X3c; its text is checked) and what LexicalScope::define / new_child do to a frame (RefCell<HashMap>): only WHICH frame they are used on is proved",
                       "an `if` in tail position (eval_tail_expression / eval_owned_tail_expression): decided under C02 (tail_post), not repeated here",
                       "`every operand evaluated exactly ONCE`: a relation over results cannot count evaluations; the multiplicity rests on the ASSUMED contract of "
                       "slice.iter().map(f).collect() (f applied once per element, in order) and is otherwise only tested by the grid",
                       "apply_procedure's meaning (an uninterpreted relation apply_rel here; its arity / trampoline contracts are C08 / C02); the elements of a list "
                       "(list_items: pair.rs IntoIter, ASSUMED)",
                       "termination of eval_expression (exec_allows_no_decreases_clause: evaluation need not terminate)"],
        "assumptions": ["std slice.iter().map(f).collect::<Result<_>>() applies f to the elements in order and stops at the first Err",
                        "Ref<Value>::clone / derive(Clone) on SchemeProcedure are structural"],
    },
    "C18": {
        "verus": ["repl_complete"], "kani": [], "native": ["complete_witness", "complete_oracle"],
        "level": "proof",
        "explanation": "check_bracket_closed (the REPL's completeness test) is proved equal, for texts of any length, "
                       "to a reader-derived state machine; split-invariance of that machine is a proved lemma.",
        "unverified": ["repl::run_with_interpreter (rustyline terminal loop, printing, history): no contract within reach",
                       "the spec state machine is a hand transcription of lexer.rs (trusted; sanity-checked against the real "
                       "Lexer on all texts of length <= 6 over an 11-character alphabet in the thorough tier)"],
        "assumptions": ["a submission has fewer than 2^31 characters (the i32 nesting counter)",
                        "rule X4: check_bracket_closed is instantiated at str::Chars, the type of its only call site (checked each run)"],
    },
    "C09": {
        "verus": ["values_num", "base_folds", "base_pairs"], "kani": ["values", "folds"], "native": [],
        "level": "proof",
        "explanation": "Every arithmetic operation of Number is proved against rational-arithmetic postconditions for ALL i32 "
                       "operands (Verus, mathematical integers) and for an abstract inexact type R (contagion by congruence); "
                       "the facts assumed about R are checked at R = f32 by loop-free full-domain Kani harnesses. The builtins + - * / of base.rs "
                       "are proved to be the left fold of those binary operations (zero/one-argument conventions, arguments examined left "
                       "to right, the first type error or division by zero ends the fold).",
        "unverified": ["rule X4': the builtins + - * / are verified at Vec<Value<R>>; production passes a SmallVec (same sequence of items)",
                       "sqrt/exp/ln/... and `exact` (not part of the statement)"],
        "assumptions": ["R's operators are total functions of their operands (trait-level assumption real_ops_are_total_functions; true of f32)",
                        "Rust's f32 + - * / abs floor ceil are the IEEE-754 binary32 operations"],
    },
    "C10": {
        "verus": ["values_num", "base_cmp", "base_folds"], "kani": ["values", "folds"], "native": [],
        "level": "proof",
        "explanation": "PartialEq::eq / PartialOrd::partial_cmp / exact_eqv of Number are proved to be the order of the rationals "
                       "on every pair of representations with positive denominators (all i32), and the comparison of the "
                       "converted operands when one is inexact -- for ALL operands, so Number obeys its eq/partial_cmp specs and the derived "
                       "operators == < > <= >= are proved to follow (witness_operators). The five macro-generated chains = < > <= >= of "
                       "base.rs are proved to type-check EVERY argument (a non-number anywhere is the TypeMisMatch error) and, on numbers, to return exactly the conjunction of the adjacent pairs; "
                       "max / min are proved to be the left fold of a binary step that is proved (lemma_maxmin_step) to return the "
                       "numerically extreme operand, exact iff both operands are exact.",
        "unverified": ["identity of list cells in eqv? (std::ptr::eq, no contract)",
                       "rule X4': the chains are verified at Vec<Value<R>>; production passes a SmallVec (same sequence of items)"],
        "assumptions": ["R's == and partial_cmp are functions of their operands (obeys_eq_spec / obeys_partial_cmp_spec)"],
    },
}
