"""dev helper: python3 -m vf.dev_unit <unit> <snapshot> -- build + run one Verus unit and print diagnostics"""
import sys
from . import run_verus
unit, snap = sys.argv[1], sys.argv[2]
r = run_verus.run_unit(snap, unit, "/var/tmp/rv/dev", do_canary=("--canary" in sys.argv))
print("status:", r["status"], "| infra:", r["infra"])
print("verified:", r.get("verified"), "errors:", r.get("n_errors"), "wall: %.1fs smt_ms=%s" % (r["wall_s"], r["smt_ms"]))
for e in r["errors"]:
    print("--", e["kind"], "|", e["fn"], "|", e["label"], "|", e["msg"]); print(e["text"])
for k, v in sorted(r["functions"].items()):
    if not v["success"] or v["time_us"] > 2_000_000:
        print("fn", k, v)
print("canary:", r.get("canary"))
if "--stderr" in sys.argv: print(r.get("stderr"))
