"""Kani route: splice harness modules into a *snapshot* of /repo (never into /repo itself).

A harness file  contracts/kani/<unit>.harness.rs  holds functions
    //@ props C09 C07            (which properties the harness serves)
    //@ unwind 5                 (optional: marks the harness BOUNDED)
    //@ stub <path> <replacement> (optional kani::stub)
    pub fn h_<name>(s: &mut In) -> Result<(), String> { ... vassume!/vcheck!/vcover! ... }
The module is appended to the real source file as a child module (so it sees private items);
all function bodies of the snapshot stay byte-identical.
"""
import os
import re

HERE = os.path.dirname(os.path.abspath(__file__))
CONTRACTS = os.path.join(os.path.dirname(HERE), "contracts", "kani")

HARNESS_RE = re.compile(r"^pub fn h_(\w+)\(s: &mut In\)", re.M)


class Harness:
    def __init__(self, unit, name):
        self.unit = unit
        self.name = name
        self.props = []
        self.unwind = None
        self.stubs = []
        self.tier = "quick"
        self.meta = {}
        self.checks = []      # vcheck names
        self.covers = []

    @property
    def kani_name(self):
        return "k_" + self.name


def expand_templates(text):
    """`//@ expand VAR in A B C` in front of a harness replicates that harness once per value, substituting
    {VAR} (whole value) and {VAR0}, {VAR1}, ... (its characters).  Keeps every instance loop-free and concrete."""
    out = []
    pos = 0
    for m in re.finditer(r"^//@ expand (\w+) in ([^\n]+)\n", text, flags=re.M):
        if m.start() < pos:
            continue
        end = text.find("\n}\n", m.end())
        if end < 0:
            raise ValueError("expand: no function end after %r" % m.group(0))
        end += 3
        block = text[m.end():end]
        out.append(text[pos:m.start()])
        var = m.group(1)
        for val in m.group(2).split():
            inst = block.replace("{%s}" % var, val)
            for k, ch in enumerate(val):
                inst = inst.replace("{%s%d}" % (var, k), ch)
                inst = inst.replace("{%s:%d}" % (var, k), val[k:])
            out.append(inst)
        pos = end
    out.append(text[pos:])
    return "".join(out)


def parse_harness_file(unit, text):
    """Return list[Harness] in file order."""
    out = []
    lines = text.split("\n")
    def fresh():
        return {"props": [], "unwind": None, "stubs": [], "tier": "quick", "meta": {}}
    pending = fresh()
    cur = None
    for ln in lines:
        m = re.match(r"\s*//@\s*(\w+)\s*(.*)$", ln)
        if m:
            k, v = m.group(1), m.group(2).strip()
            if k == "props":
                pending["props"] = v.split()
            elif k == "unwind":
                pending["unwind"] = int(v)
            elif k == "stub":
                pending["stubs"].append(tuple(v.split()))
            elif k == "tier":
                pending["tier"] = v
            else:
                pending["meta"][k] = v
            continue
        m = HARNESS_RE.match(ln)
        if m:
            cur = Harness(unit, m.group(1))
            cur.props = pending["props"]
            cur.unwind = pending["unwind"]
            cur.stubs = pending["stubs"]
            cur.tier = pending["tier"]
            cur.meta = pending["meta"]
            pending = fresh()
            out.append(cur)
            continue
        if cur is not None:
            if ln.startswith("}"):
                cur = None
                continue
            for cm in re.finditer(r'vcheck!\(\s*"([^"]+)"', ln):
                cur.checks.append(cm.group(1))
            for cm in re.finditer(r'vcover!\(\s*"([^"]+)"', ln):
                cur.covers.append(cm.group(1))
    # multi-line vcheck!(\n "name", ...)
    for h in out:
        body = _body_of(text, h.name)
        h.checks = re.findall(r'vcheck!\(\s*"([^"]+)"', body)
        h.covers = re.findall(r'vcover!\(\s*"([^"]+)"', body)
    return out


def _body_of(text, name):
    i = text.find("pub fn h_%s(" % name)
    j = text.find("\n}\n", i)
    return text[i:j]


def build_module(unit, harness_text, harnesses, modname="verif_harness"):
    prelude = open(os.path.join(CONTRACTS, "prelude.rs")).read()
    w = []
    w.append("\n\n// ===== injected by /verif (snapshot only; /repo is never edited) =====")
    w.append("#[cfg(any(kani, verif_replay))]")
    w.append("#[allow(unused, clippy::all)]")
    w.append("mod %s {" % modname)
    w.append("use super::*;")
    w.append(prelude)
    w.append(harness_text)
    w.append("// ---- generated wrappers ----")
    for h in harnesses:
        w.append("#[cfg(kani)]")
        w.append("#[kani::proof]")
        if h.unwind is not None:
            w.append("#[kani::unwind(%d)]" % h.unwind)
        for st in h.stubs:
            w.append("#[kani::stub(%s, %s)]" % (st[0], st[1]))
        w.append("pub fn %s() { let mut s = In; let _ = h_%s(&mut s); kani::cover!(true, \"harness end reachable\"); }"
                 % (h.kani_name, h.name))
    w.append("#[cfg(verif_replay)]")
    w.append("#[test]")
    w.append("fn verif_replay_entry() {")
    w.append("    let name = std::env::var(\"VERIF_REPLAY_HARNESS\").expect(\"VERIF_REPLAY_HARNESS\");")
    w.append("    let raw = std::env::var(\"VERIF_REPLAY_BYTES\").unwrap_or_default();")
    w.append("    let vals: Vec<Vec<u8>> = raw.split(';').filter(|p| !p.is_empty())")
    w.append("        .map(|p| p.split(',').filter(|b| !b.is_empty()).map(|b| b.trim().parse::<u8>().unwrap()).collect()).collect();")
    w.append("    let f: fn(&mut In) -> HR = match name.as_str() {")
    for h in harnesses:
        w.append("        \"%s\" => h_%s," % (h.name, h.name))
    w.append("        other => panic!(\"unknown harness {}\", other),")
    w.append("    };")
    w.append(open(os.path.join(CONTRACTS, "replay_entry.rs")).read())
    w.append("}")
    w.append("}")
    return "\n".join(w) + "\n"


def inject_unit(snapshot, unit):
    """unit: dict(name, file, harness) -> list[Harness]; edits snapshot/<file> in place."""
    hpath = os.path.join(CONTRACTS, unit["harness"])
    text = expand_templates(open(hpath).read())
    harnesses = parse_harness_file(unit["name"], text)
    target = os.path.join(snapshot, unit["file"])
    if not os.path.exists(target):
        raise FileNotFoundError("anchor lost: %s not in snapshot" % unit["file"])
    src = open(target).read()
    modname = "verif_harness_" + unit["name"]
    src += build_module(unit["name"], text, harnesses, modname)
    open(target, "w").write(src)
    for h in harnesses:
        h.module_path = unit["modpath"] + "::" + modname
    return harnesses
