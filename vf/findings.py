"""known_findings.toml: committed, never written at run time."""
import os
import tomllib

PATH = os.path.join(os.path.dirname(os.path.dirname(os.path.abspath(__file__))), "known_findings.toml")


def load():
    if not os.path.exists(PATH):
        return {"finding": [], "fixed": []}
    with open(PATH, "rb") as f:
        d = tomllib.load(f)
    d.setdefault("finding", [])
    d.setdefault("fixed", [])
    return d


def is_listed(known, prop, fid):
    for f in known["finding"]:
        if f.get("property") == prop and f.get("id") == fid:
            return f
    return None
