#!/bin/sh
# usage: vf/confirm_seed.sh <seed-dir>   -- independent confirmation of a seeded change in a scratch worktree:
#   (1) with the patch the crate compiles and the whole pinned suite passes,
#   (2) the demonstration FAILS with the patch, (3) and PASSES without it.
# The scratch worktree (/tmp/confirm-wt) and its build output are removed at the end.
set -u
SEED=$(cd "$1" && pwd)
WT=/tmp/confirm-wt
export CARGO_TARGET_DIR=/tmp/confirm-target CARGO_NET_OFFLINE=true
git -C /repo worktree remove --force $WT >/dev/null 2>&1
rm -rf $WT
git -C /repo worktree add -q --detach $WT HEAD || exit 2
cd $WT
git apply "$SEED/patch.diff" || { echo "CONFIRM: patch does not apply"; exit 2; }
echo "== suite with the patch"
cargo test --offline --no-fail-fast 2>&1 | grep -E "^test result|FAILED|panicked|error(\[|:)" | head -8
SUITE_OK=$?
# install the demo
if [ -f "$SEED/seed_demo.rs" ]; then mkdir -p tests; cp "$SEED/seed_demo.rs" tests/seed_demo.rs; DEMO="--test seed_demo"; fi
if [ -f "$SEED/demo_module.rs" ]; then cat "$SEED/demo_module.rs" >> src/repl.rs; DEMO="--lib seed_demo"; fi
echo "== demo WITH the patch (must fail)"
cargo test --offline $DEMO 2>&1 | grep -E "^test result|overflowed|SIGABRT|signal" | head -4
echo "== demo WITHOUT the patch (must pass)"
git apply -R "$SEED/patch.diff"
cargo test --offline $DEMO 2>&1 | grep -E "^test result|overflowed|SIGABRT|signal" | head -4
cd /
git -C /repo worktree remove --force $WT
rm -rf $WT
