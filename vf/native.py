"""Native helper units (cfg verif_replay): witness searches and oracle sanity checks. Never proof."""
import fcntl
import os
import re
import subprocess

HERE = os.path.dirname(os.path.abspath(__file__))
NATIVE_DIR = os.path.join(os.path.dirname(HERE), "contracts", "native")


def inject_native(snapshot, spec):
    """Append the unit's source as a child module (cfg verif_replay) to the file it belongs to; idempotent."""
    target = os.path.join(snapshot, spec["file"])
    if not os.path.exists(target):
        return
    modname = "verif_native_" + os.path.splitext(spec["source"])[0]
    src = open(target).read()
    if ("mod %s " % modname) not in src:
        body = open(os.path.join(NATIVE_DIR, spec["source"])).read()
        src += "\n\n#[cfg(verif_replay)]\n#[allow(unused, clippy::all)]\nmod %s {\nuse super::*;\n%s\n}\n" % (modname, body)
        open(target, "w").write(src)


def run_native(snapshot, native_target, spec, timeout=900):
    """spec: dict(file=<src file to inject into>, source=<contracts/native/x.rs>, modpath=<module path of file>,
    test=<test fn name>)"""
    target = os.path.join(snapshot, spec["file"])
    modname = "verif_native_" + os.path.splitext(spec["source"])[0]
    src = open(target).read()
    if ("mod %s " % modname) not in src:
        body = open(os.path.join(NATIVE_DIR, spec["source"])).read()
        src += "\n\n#[cfg(verif_replay)]\n#[allow(unused, clippy::all)]\nmod %s {\nuse super::*;\n%s\n}\n" % (modname, body)
        open(target, "w").write(src)
    env = dict(os.environ)
    env["CARGO_NET_OFFLINE"] = "true"
    env["CARGO_TARGET_DIR"] = native_target
    env["RUSTFLAGS"] = (env.get("RUSTFLAGS", "") + " --cfg verif_replay -A warnings").strip()
    test = "%s::%s::%s" % (spec["modpath"], modname, spec["test"])
    cmd = ["cargo", "test", "--offline", "--release", "--lib", test, "--", "--exact", "--nocapture", "--test-threads", "1"]
    # the target directory is shared between checks (dependency crates are built once); two checks running at the same time
    # build DIFFERENT snapshots of the crate into it, so build + run of a unit hold an exclusive lock on the directory
    os.makedirs(native_target, exist_ok=True)
    with open(os.path.join(native_target, ".verif-lock"), "w") as lk:
        fcntl.flock(lk, fcntl.LOCK_EX)
        from . import run_kani as _rk
        _rk.force_rebuild_if_other_snapshot(native_target, snapshot)
        try:
            p = subprocess.run(cmd, cwd=snapshot, env=env, stdout=subprocess.PIPE, stderr=subprocess.STDOUT, text=True,
                               timeout=timeout)
            out = p.stdout
        except subprocess.TimeoutExpired:
            return {"status": "timeout", "summary": "native unit timed out", "cmd": " ".join(cmd)}
    m = re.search(r"VERIF-NATIVE: (ok|disagree) (.*)", out)
    if not m:
        return {"status": "error", "summary": "no VERIF-NATIVE line:\n" + out[-2000:], "cmd": " ".join(cmd)}
    return {"status": m.group(1), "summary": m.group(2).strip(), "cmd": " ".join(cmd)}
