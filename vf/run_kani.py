"""Run Kani harnesses on the injected snapshot and parse per-harness results."""
import fcntl
import os
import re
import subprocess
import time

ENV_BASE = {"CARGO_NET_OFFLINE": "true"}


class _TargetLock:
    """Exclusive lock on a shared cargo target directory for the duration of one build + run (see vf/native.py)."""
    def __init__(self, target_dir):
        os.makedirs(target_dir, exist_ok=True)
        self.path = os.path.join(target_dir, ".verif-lock")
    def __enter__(self):
        self.f = open(self.path, "w")
        fcntl.flock(self.f, fcntl.LOCK_EX)
        return self
    def __exit__(self, *a):
        self.f.close()


def force_rebuild_if_other_snapshot(target_dir, snapshot):
    """Call with the target-dir lock held.  cargo's freshness test is by mtime and by paths RELATIVE to the package root, so
    a crate built from ANOTHER snapshot later than this snapshot was written looks fresh: touch this snapshot's lib.rs when
    the last build in the directory came from a different snapshot."""
    marker = os.path.join(target_dir, ".verif-last-snapshot")
    last = open(marker).read() if os.path.exists(marker) else ""
    if last != snapshot:
        lib = os.path.join(snapshot, "src", "lib.rs")
        if os.path.exists(lib):
            os.utime(lib, None)
        open(marker, "w").write(snapshot)


def _run_locked(target_dir, cmd, **kw):
    with _TargetLock(target_dir):
        force_rebuild_if_other_snapshot(target_dir, kw.get("cwd") or "")
        return subprocess.run(cmd, **kw)


def _env(target_dir):
    e = dict(os.environ)
    e.update(ENV_BASE)
    e["CARGO_TARGET_DIR"] = target_dir
    return e


def build_only(snapshot, target_dir, timeout=900):
    t0 = time.time()
    p = _run_locked(target_dir, ["cargo", "kani", "--only-codegen", "-Z", "stubbing"], cwd=snapshot, env=_env(target_dir),
                       stdout=subprocess.PIPE, stderr=subprocess.STDOUT, text=True, timeout=timeout)
    return p.returncode, p.stdout, time.time() - t0


def run_harnesses(snapshot, target_dir, harnesses, jobs=4, timeout=600, solver=None, extra=None):
    """harnesses: list of inject.Harness.  One `cargo kani` invocation, terse output, -j jobs.
    Returns {name: {status, failed_checks, covers, time_s, raw}} and the command line."""
    if not harnesses:
        return {}, ""
    cmd = ["cargo", "kani", "-Z", "stubbing", "-Z", "unstable-options", "--harness-timeout", "%ds" % timeout,
           "-j", str(jobs), "--output-format", "terse"]
    if solver:
        cmd += ["--solver", solver]
    for h in harnesses:
        cmd += ["--harness", h.module_path + "::" + h.kani_name]
    cmd += ["--exact"]
    if extra:
        cmd += extra
    t0 = time.time()
    try:
        p = _run_locked(target_dir, cmd, cwd=snapshot, env=_env(target_dir), stdout=subprocess.PIPE,
                        stderr=subprocess.STDOUT, text=True, timeout=timeout * max(1, (len(harnesses) + jobs - 1) // jobs) + 300)
        out = p.stdout
    except subprocess.TimeoutExpired as e:
        out = (e.stdout.decode() if isinstance(e.stdout, bytes) else (e.stdout or "")) + "\nVERIF: cargo kani timed out\n"
    wall = time.time() - t0
    res = parse_terse(out, harnesses)
    for r in res.values():
        r["wall_total_s"] = wall
    return res, " ".join(cmd), out


def parse_terse(out, harnesses):
    """Terse -j output: 'Thread N: Checking harness <path>...' then later 'Thread N: \\nVERIFICATION RESULT: ...'."""
    res = {}
    byname = {h.module_path + "::" + h.kani_name: h for h in harnesses}
    for full, h in byname.items():
        res[h.name] = {"status": "NO-RESULT", "failed_checks": [], "covers": None, "time_s": None, "raw": ""}
    compile_error = ("error: could not compile" in out) or ("error[E" in out)
    thread_harness = {}
    # split into per-thread blocks
    blocks = re.split(r"^(Thread \d+): ", out, flags=re.M)
    # blocks = [pre, 'Thread 1', text, 'Thread 2', text, ...]
    k = 1
    single_current = None
    while k + 1 < len(blocks):
        th, text = blocks[k], blocks[k + 1]
        k += 2
        m = re.match(r"Checking harness (\S+?)\.\.\.", text)
        if m:
            thread_harness[th] = m.group(1)
            continue
        full = thread_harness.get(th)
        if not full or full not in byname:
            continue
        _fill(res[byname[full].name], text)
    # non-parallel format (jobs=1): "Checking harness X..." followed by result
    if len(blocks) <= 1:
        for m in re.finditer(r"Checking harness (\S+?)\.\.\.(.*?)(?=Checking harness |\Z)", out, flags=re.S):
            full = m.group(1)
            if full in byname:
                _fill(res[byname[full].name], m.group(2))
    for r in res.values():
        if r["status"] == "NO-RESULT" and compile_error:
            r["status"] = "COMPILE-ERROR"
    return res


def _fill(r, text):
    r["raw"] = text[-3000:]
    if "VERIFICATION:- SUCCESSFUL" in text:
        r["status"] = "SUCCESS"
    elif "VERIFICATION:- FAILED" in text:
        r["status"] = "FAILED"
    if "CBMC timed out" in text or "timed out" in text.lower():
        if r["status"] != "SUCCESS":
            r["status"] = "TIMEOUT"
    m = re.search(r"Verification Time: ([\d.]+)s", text)
    if m:
        r["time_s"] = float(m.group(1))
    m = re.search(r"\*\* (\d+) of (\d+) failed", text)
    if m:
        r["n_failed"], r["n_checks"] = int(m.group(1)), int(m.group(2))
    m = re.search(r"\*\* (\d+) of (\d+) cover properties satisfied", text)
    if m:
        r["covers"] = (int(m.group(1)), int(m.group(2)))
    r["failed_checks"] = [c.strip().strip('"') for c in re.findall(r'Failed Checks: (.*)', text)]
    if re.search(r"unwinding assertion", text):
        r["unwinding_failed"] = True


def concrete_playback(snapshot, target_dir, harness, timeout=900, solver=None):
    """Re-run one failed harness with concrete playback; return list of byte vectors (draw order)."""
    cmd = ["cargo", "kani", "-Z", "stubbing", "-Z", "concrete-playback", "--concrete-playback=print",
           "--harness", harness.module_path + "::" + harness.kani_name, "--exact"]
    if solver:
        cmd += ["--solver", solver]
    try:
        p = _run_locked(target_dir, cmd, cwd=snapshot, env=_env(target_dir), stdout=subprocess.PIPE, stderr=subprocess.STDOUT,
                        text=True, timeout=timeout)
        out = p.stdout
    except subprocess.TimeoutExpired as e:
        return None, "concrete playback timed out"
    cands = []
    for blk in out.split("Concrete playback unit test for")[1:]:
        if "Check for `cover`" in blk:
            continue      # a satisfied cover also gets a playback test: that one is a PASSING run
        m = re.search(r"let concrete_vals: Vec<Vec<u8>> = vec!\[(.*?)\];", blk, flags=re.S)
        if not m:
            continue
        vals = []
        for vm in re.finditer(r"vec!\[([^\]]*)\]", m.group(1)):
            vals.append([int(x) for x in vm.group(1).replace("\n", " ").split(",") if x.strip()])
        what = re.search(r"/// Check for `(\w+)`: (.*)", blk)
        cands.append({"vals": vals, "check": what.group(2).strip() if what else ""})
    if not cands:
        return None, out[-2000:]
    return cands, out[-4000:]


def native_replay(snapshot, native_target, harness, vals, timeout=600, panic_only=False):
    """Run the same harness body natively (cfg verif_replay) on the concrete values, against the real code."""
    env = dict(os.environ)
    env.update(ENV_BASE)
    env["CARGO_TARGET_DIR"] = native_target
    env["RUSTFLAGS"] = (env.get("RUSTFLAGS", "") + " --cfg verif_replay -A warnings").strip()
    env["VERIF_REPLAY_HARNESS"] = harness.name
    env["VERIF_REPLAY_BYTES"] = ";".join(",".join(str(b) for b in v) for v in vals)
    test = harness.module_path + "::verif_replay_entry"
    cmd = ["cargo", "test", "--offline", "--lib", test, "--", "--exact", "--nocapture", "--test-threads", "1"]
    try:
        p = _run_locked(native_target, cmd, cwd=snapshot, env=env, stdout=subprocess.PIPE, stderr=subprocess.STDOUT, text=True,
                        timeout=timeout)
        out = p.stdout
    except subprocess.TimeoutExpired:
        return {"outcome": "replay timed out", "reproduced": False, "cmd": " ".join(cmd)}
    m = re.search(r"VERIF-REPLAY-OUTCOME: (.*)", out)
    outcome = m.group(1).strip() if m else "no outcome line\n" + out[-1500:]
    return {"outcome": outcome, "reproduced": bool(m) and ((outcome.startswith("FAILED") and not panic_only) or outcome.startswith("PANIC")),
            "cmd": " ".join(cmd), "env": {"VERIF_REPLAY_HARNESS": harness.name,
                                          "VERIF_REPLAY_BYTES": env["VERIF_REPLAY_BYTES"]}}


def native_grid_search(snapshot, native_target, harness, budget=3000000, timeout=600, panic_only=False):
    """Native witness search: run the harness body over a grid of boundary values against the real code.
    Returns {found, vals, outcome, cmd}."""
    env = dict(os.environ)
    env.update(ENV_BASE)
    env["CARGO_TARGET_DIR"] = native_target
    env["RUSTFLAGS"] = (env.get("RUSTFLAGS", "") + " --cfg verif_replay -A warnings").strip()
    env["VERIF_REPLAY_HARNESS"] = harness.name
    env["VERIF_REPLAY_GRID"] = str(budget)
    if panic_only:
        env["VERIF_REPLAY_PANIC_ONLY"] = "1"     # a failed functional check is not a witness for a panic-freedom property
    test = harness.module_path + "::verif_replay_entry"
    cmd = ["cargo", "test", "--offline", "--lib", test, "--", "--exact", "--nocapture", "--test-threads", "1"]
    try:
        p = _run_locked(native_target, cmd, cwd=snapshot, env=env, stdout=subprocess.PIPE, stderr=subprocess.STDOUT, text=True,
                        timeout=timeout)
        out = p.stdout
    except subprocess.TimeoutExpired:
        return {"found": False, "outcome": "grid search timed out", "cmd": " ".join(cmd)}
    m = re.search(r"VERIF-GRID-FOUND: bytes=(\S*) outcome=(.*)", out)
    if m:
        vals = [[int(b) for b in part.split(",") if b] for part in m.group(1).split(";") if part]
        return {"found": True, "vals": vals, "outcome": m.group(2).strip(), "cmd": " ".join(cmd)}
    m = re.search(r"VERIF-GRID-NONE: (.*)", out)
    return {"found": False, "outcome": m.group(0) if m else out[-1500:], "cmd": " ".join(cmd)}
