"""Run one Verus unit: extract from the snapshot, verify, map diagnostics to obligations, run the canary."""
import json
import os
import re
import subprocess
import time

from . import extract

VERUS = "verus"


def _run_verus(path, rlimit=None, timeout=600, extra=None):
    cmd = [VERUS, os.path.basename(path), "--output-json", "--time", "--multiple-errors", "4"]
    if rlimit:
        cmd += ["--rlimit", str(rlimit)]
    if extra:
        cmd += extra
    t0 = time.time()
    try:
        p = subprocess.run(cmd, cwd=os.path.dirname(path), stdout=subprocess.PIPE, stderr=subprocess.PIPE,
                           timeout=timeout, text=True)
        out, err, rc = p.stdout, p.stderr, p.returncode
        timed_out = False
    except subprocess.TimeoutExpired as e:
        out = e.stdout.decode() if isinstance(e.stdout, bytes) else (e.stdout or "")
        err = e.stderr.decode() if isinstance(e.stderr, bytes) else (e.stderr or "")
        rc, timed_out = -9, True
    return {"cmd": " ".join(cmd), "stdout": out, "stderr": err, "rc": rc, "wall_s": time.time() - t0,
            "timed_out": timed_out}


DIAG_RE = re.compile(r"^(error|warning|note)(\[[A-Z0-9]+\])?: (.*)$")
SPAN_RE = re.compile(r"^\s*--> ([^:]+):(\d+):(\d+)")


def parse_diagnostics(stderr):
    """Split rustc-style text diagnostics into records {level,msg,line,col,text}."""
    diags = []
    cur = None
    for ln in stderr.split("\n"):
        m = DIAG_RE.match(ln)
        if m:
            if cur:
                diags.append(cur)
            cur = {"level": m.group(1), "msg": m.group(3), "line": None, "col": None, "text": ln + "\n", "spans": []}
            continue
        if cur is None:
            continue
        cur["text"] += ln + "\n"
        s = SPAN_RE.match(ln)
        if s:
            if cur["line"] is None:
                cur["line"] = int(s.group(2))
                cur["col"] = int(s.group(3))
        s2 = re.match(r"^\s*(\d+)\s*\|", ln)
        if s2:
            cur["spans"].append(int(s2.group(1)))
    if cur:
        diags.append(cur)
    return diags


VERIF_ERRS = (
    "postcondition not satisfied", "precondition not satisfied", "invariant not satisfied",
    "assertion failed", "possible arithmetic underflow/overflow", "possible division by zero",
    "decreases not satisfied", "could not prove termination", "loop invariant", "unreachable",
    "recommendation not met", "index out of bounds", "possible bit shift", "cannot show invariant",
    "failed precondition", "constructed value may fail", "unwrap", "split", "Resource limit",
    "possible overflow", "might not be allowed",
    "unable to prove post-condition of closure", "unable to prove pre-condition of closure",
)


def classify_error(d):
    """verification failure (a verdict) vs front-end rejection (unsupported construct)."""
    msg = d["msg"]
    if "rlimit" in msg.lower() or "resource limit" in msg.lower() or "timed out" in msg.lower():
        return "resource"
    for k in VERIF_ERRS:
        if k.lower() in msg.lower():
            return "verification"
    if msg.startswith("aborting due to") or msg.startswith("could not compile"):
        return "summary"
    return "frontend"


def fn_at_line(text_lines, line):
    """Name of the fn enclosing a generated-file line (walk upwards to the nearest `fn NAME`)."""
    for k in range(min(line, len(text_lines)) - 1, -1, -1):
        m = re.search(r"\bfn\s+(\w+)", text_lines[k])
        if m and not text_lines[k].lstrip().startswith("//"):
            return m.group(1)
    return "?"


def scan_assumptions(text):
    """Mechanical scan of the generated file for everything that is assumed rather than proved."""
    found = []
    lines = text.split("\n")
    for i, ln in enumerate(lines):
        s = ln.strip()
        if s.startswith("//"):
            continue
        if "assume_specification" in ln:
            m = re.search(r"\[\s*([^\]]+)\]", " ".join(lines[i:i + 3]))
            found.append(("assume_specification", " ".join((m.group(1) if m else s).split())))
        if "external_body" in ln:
            # name of the next fn/struct/enum
            name = "?"
            for k in range(i, min(i + 6, len(lines))):
                m = re.search(r"\b(fn|struct|enum|type)\s+(\w+)", lines[k])
                if m:
                    name = m.group(2)
                    break
            found.append(("external_body", name))
        if re.search(r"\bassume\s*\(", ln):
            found.append(("assume", s))
        if re.search(r"\badmit\s*\(", ln):
            found.append(("admit", s))
        if "exec_allows_no_decreases_clause" in ln:
            found.append(("no_decreases", s))
        if "external_trait_specification" in ln or "external_type_specification" in ln:
            found.append(("external_spec", " ".join(lines[i + 1].split()) if i + 1 < len(lines) else s))
    return found


def make_canary_one(text, f):
    """Add `false` to the ensures of ONE function under contract (it must then be rejected).
    One function at a time: a callee with `ensures false` would make its callers vacuously pass."""
    raw = f.get("raw_contract") or ""
    if not raw.strip():
        return None
    m = re.search(r"\bfn\s+%s\s*[<(]" % re.escape(f["fn"]), text)
    start = m.start() if m else 0
    idx = text.find(raw, start)
    if idx < 0:
        return None
    if re.search(r"\bensures\b", raw):
        new = re.sub(r"\bensures\b", "ensures false,", raw, count=1)
    elif re.search(r"\bdecreases\b", raw):
        new = re.sub(r"\bdecreases\b", "ensures false,\n    decreases", raw, count=1)
    else:
        new = raw.rstrip() + ("" if raw.rstrip().endswith(",") else ",") + "\n    ensures false,"
    return text[:idx] + new + text[idx + len(raw):]


def run_canaries(text, fns, workdir, unit_name, rlimit, timeout):
    from concurrent.futures import ThreadPoolExecutor
    jobs = []
    for k, f in enumerate(fns):
        ctext = make_canary_one(text, f)
        if ctext is None:
            continue
        cpath = os.path.join(workdir, "%s_canary_%d.rs" % (unit_name, k))
        open(cpath, "w").write(ctext)
        jobs.append((f, cpath))

    def one(job):
        f, cpath = job
        cr = _run_verus(cpath, rlimit=rlimit, timeout=timeout)
        ok = False
        try:
            cj = json.loads(cr["stdout"])
            for m in cj["times-ms"]["smt"]["smt-run-module-times"]:
                for fb in m.get("function-breakdown", []):
                    if fb["function"].split("::")[-1] == f["fn"] and not fb["success"]:
                        ok = True
        except Exception:
            ok = False
        try:
            os.remove(cpath)
        except OSError:
            pass
        return f["fn"], ok, cr["wall_s"]

    with ThreadPoolExecutor(max_workers=8) as ex:
        results = list(ex.map(one, jobs))
    return results


def run_unit(snapshot, unit_name, workdir, tier="quick", do_canary=True):
    unit = extract.load_unit(unit_name)
    res = {"unit": unit_name, "backend": "verus", "status": "ok", "functions": {}, "errors": [],
           "rules": [], "assumptions": [], "smt_ms": 0, "wall_s": 0.0, "infra": None, "fns": [],
           "canary": None, "cmd": None, "props": unit.get("props", [])}
    try:
        text, linemap, rules, fns = extract.build_unit(snapshot, unit)
    except extract.Unsupported as e:
        res["status"] = "infra"
        res["infra"] = str(e)
        return res
    # raw contract text per fn (for the canary)
    for f in fns:
        if not f.get("props"):
            f["props"] = unit.get("props", [])
    res["rules"] = rules
    res["fns"] = fns
    # functions whose ghost-hint anchors were lost (their failures need a witness to count as violations)
    res["anchors_lost"] = sorted(set(r["site"].split("::")[-1] for r in rules if r.get("anchor_lost")))
    os.makedirs(workdir, exist_ok=True)
    path = os.path.join(workdir, unit_name + ".rs")
    open(path, "w").write(text)
    res["file"] = path
    rlimit = unit.get("rlimit")
    if tier == "thorough" and rlimit:
        pass
    r = _run_verus(path, rlimit=rlimit, timeout=unit.get("timeout", 600))
    res["cmd"] = r["cmd"]
    res["wall_s"] = r["wall_s"]
    res["stderr"] = r["stderr"]
    text_lines = text.split("\n")
    try:
        j = json.loads(r["stdout"]) if r["stdout"].strip() else None
    except json.JSONDecodeError:
        j = None
    diags = parse_diagnostics(r["stderr"])
    errs = [d for d in diags if d["level"] == "error"]
    if r["timed_out"]:
        res["status"] = "infra"
        res["infra"] = "verus timed out"
        return res
    vr = (j or {}).get("verification-results")
    if not vr or vr.get("encountered-vir-error") or ("verified" not in vr):
        res["status"] = "infra"
        res["infra"] = "verus front end rejected the unit (unsupported construct / contract out of date):\n" + \
                       "".join(d["text"] for d in errs[:3])
        return res
    fe = [d for d in errs if classify_error(d) == "frontend"]
    if fe and vr.get("verified", 0) == 0 and vr.get("errors", 0) == 0:
        res["status"] = "infra"
        res["infra"] = "verus front end rejected the unit:\n" + "".join(d["text"] for d in fe[:3])
        return res
    # per-function results
    crate = unit_name
    try:
        mods = j["times-ms"]["smt"]["smt-run-module-times"]
        res["smt_ms"] = j["times-ms"]["smt"]["total"]
    except Exception:
        mods = []
    for m in mods:
        for fb in m.get("function-breakdown", []):
            name = fb["function"].split("::")[-1]
            res["functions"][name] = {"success": fb["success"], "time_us": fb.get("time-micros", 0),
                                      "rlimit": fb.get("rlimit", 0), "mode": fb.get("mode:", "")}
    res["verified"] = vr.get("verified", 0)
    res["n_errors"] = vr.get("errors", 0)
    for d in errs:
        kind = classify_error(d)
        if kind == "summary":
            continue
        line = d["line"] or 0
        label, origin = extract.label_for_line(linemap, line)
        fn = fn_at_line(text_lines, line)
        clause = text_lines[line - 1].strip() if 0 < line <= len(text_lines) else ""
        res["errors"].append({"kind": kind, "msg": d["msg"], "line": line, "label": label, "origin": origin,
                              "fn": fn, "clause": clause, "text": d["text"]})
    if any(e["kind"] == "resource" for e in res["errors"]):
        res["resource_limited"] = True
    res["assumptions"] = scan_assumptions(text)
    # trusted allow-list
    allowed = unit.get("trusted", {})
    unknown = [a for a in res["assumptions"] if a[0] in ("assume_specification", "external_body", "assume", "admit")
               and not any(k in a[1] for k in allowed.keys())]
    if unknown:
        res["status"] = "infra"
        res["infra"] = "assumption scan: not on the unit's allow-list: %r" % (unknown,)
        return res
    res["trusted"] = allowed
    # canaries: one per function under contract
    if do_canary and vr.get("errors", 0) == 0:
        cres = run_canaries(text, fns, workdir, unit_name, rlimit, unit.get("timeout", 600))
        missing = sorted(n for n, ok, _ in cres if not ok)
        res["canary"] = {"functions": len(cres), "rejected": sum(1 for _, ok, _ in cres if ok),
                         "not_rejected": missing}
        if missing:
            res["status"] = "infra"
            res["infra"] = "vacuity: `ensures false` verified for %s (contradictory assumptions?)" % missing
    return res
