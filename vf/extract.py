"""Verus route: build one single-file Verus unit from (a) real item text located in the snapshot by
item path, (b) the contract file, (c) the prelude of opaque declarations / assumed specs.

Everything the extraction changes is a logged rule application (X1..X8, see DESIGN.md 3.2).
"""
import importlib.util
import os
import re

from . import rsitems

HERE = os.path.dirname(os.path.abspath(__file__))
VERUS_DIR = os.path.join(os.path.dirname(HERE), "contracts", "verus")


class Unsupported(Exception):
    """The extractor cannot apply a rule / find an anchor: infrastructure outcome (exit 2), never a verdict."""


def load_unit(name):
    path = os.path.join(VERUS_DIR, name + ".py")
    spec = importlib.util.spec_from_file_location("verus_unit_" + name, path)
    mod = importlib.util.module_from_spec(spec)
    spec.loader.exec_module(mod)
    u = mod.UNIT
    if os.environ.get("VERIF_ASFOUND") and hasattr(mod, "UNIT_ASFOUND"):
        u = mod.UNIT_ASFOUND
    u.setdefault("name", name)
    return u


def _closure_body_rewrite(text, pat, repl, tail_pat):
    """Rule C1b: `pat` matches a call up to and including the head of its LAST argument, a closure (`recv.f(&mut |x| `); the
    closure's body is whatever follows up to the parenthesis that closes the call -- taken over verbatim as `\\B` in `repl`
    (so a body of any shape and depth is followed); `tail_pat`, if given, is adapter text after the call that `repl` absorbs."""
    n = 0
    for m in reversed(list(re.finditer(pat, text, flags=re.S))):
        masked = rsitems.mask(text)
        # the call's opening parenthesis: the last one inside the match that is still open at its end
        depth, opener = 0, None
        stack = []
        for k in range(m.start(), m.end()):
            if masked[k] == "(":
                stack.append(k)
            elif masked[k] == ")" and stack:
                stack.pop()
        if not stack:
            continue
        opener = stack[-1]
        close = rsitems.match_brace(masked, opener)
        body = text[m.end():close].strip()
        if body.endswith(","):
            body = body[:-1].rstrip()
        end = close + 1
        if tail_pat:
            tm = re.match(tail_pat, text[end:], flags=re.S)
            if not tm:
                continue
            end += tm.end()
        new = m.expand(repl).replace("\\B", body)
        text = text[:m.start()] + new + text[end:]
        n += 1
    return text, n


def _apply_rewrites(text, rewrites, log, where):
    for rw in rewrites:
        rule, pat, repl = rw[0], rw[1], rw[2]
        min_count = rw[3] if len(rw) > 3 else 1
        flags = re.S if (len(rw) > 4 and rw[4] == "S") else 0
        if rule == "C1b":
            new, n = _closure_body_rewrite(text, pat, repl, rw[4] if len(rw) > 4 else None)
        else:
            new, n = re.subn(pat, repl, text, flags=flags)
        if n < min_count:
            raise Unsupported("rule %s: pattern /%s/ matched %d times in %s (expected >= %d) -- anchor lost"
                              % (rule, pat, n, where, min_count))
        if n:
            log.append({"rule": rule, "site": where, "pattern": pat, "replacement": repl, "count": n})
        elif rule in ("C1", "C1b", "X3s", "X13", "X12"):
            # an OPTIONAL contract-carrying rewrite found nothing to attach to: like a lost ghost-hint anchor (rule A0), the
            # function is verified without it; a failure then counts as a violation only if a failing input is found
            log.append({"rule": "A0", "site": where, "pattern": pat, "replacement": "(optional rewrite %s matched nothing)" % rule,
                        "count": 0, "anchor_lost": True})
        text = new
    return text


def _insert_loop_specs(fn_text, loops, log, where):
    """loops: {ordinal(1-based): {"invariant": str, "body_start": str, "body_end": str, "header": (pat, repl)}}"""
    if not loops:
        return fn_text
    found = rsitems.loops_in(fn_text)
    # process from the last loop to the first so positions stay valid
    for ordinal in sorted(loops.keys(), reverse=True):
        if ordinal > len(found):
            log.append({"rule": "A0", "site": where, "pattern": "loop #%d not found (function has %d loops)" % (ordinal, len(found)),
                        "replacement": "(loop invariant skipped)", "count": 0, "anchor_lost": True})
            continue
        kw, kw_pos, open_pos, close_pos = found[ordinal - 1]
        spec = loops[ordinal]
        if "expect_kw" in spec and spec["expect_kw"] != kw:
            # the loop changed kind: its invariant cannot be placed (rule A0); verify without it
            log.append({"rule": "A0", "site": where, "pattern": "loop #%d is `%s`, contract expects `%s`" % (ordinal, kw, spec["expect_kw"]),
                        "replacement": "(loop invariant skipped)", "count": 0, "anchor_lost": True})
            continue
        text = fn_text
        if spec.get("body_end"):
            text = text[:close_pos] + "\n" + spec["body_end"] + "\n" + text[close_pos:]
        if spec.get("body_start"):
            text = text[:open_pos + 1] + "\n" + spec["body_start"] + "\n" + text[open_pos + 1:]
        inv = spec.get("invariant", "")
        header = text[kw_pos:open_pos]
        if spec.get("iter_name") and kw == "for":
            # rule L1 (generic): name the loop's ghost iterator -- `for PAT in EXPR` -> `for PAT in NAME: EXPR`
            m = re.match(r"for\s+(.+?)\s+in\s+(.+)$", header.strip(), flags=re.S)
            if not m:
                raise Unsupported("%s: loop #%d: cannot parse for-header %r" % (where, ordinal, header))
            header = "for %s in %s: %s " % (m.group(1), spec["iter_name"], m.group(2).strip())
            log.append({"rule": "L1", "site": "%s loop #%d" % (where, ordinal), "pattern": "for PAT in EXPR",
                        "replacement": "for PAT in %s: EXPR" % spec["iter_name"], "count": 1})
        if spec.get("header"):
            pat, repl = spec["header"]
            new_header, n = re.subn(pat, repl, header)
            if n != 1:
                raise Unsupported("%s: loop #%d header rewrite /%s/ matched %d times" % (where, ordinal, pat, n))
            log.append({"rule": "L1", "site": "%s loop #%d" % (where, ordinal), "pattern": pat,
                        "replacement": repl, "count": 1})
            header = new_header
        text = text[:kw_pos] + header.rstrip() + "\n" + inv + "\n" + text[open_pos:]
        fn_text = text
    return fn_text


def _apply_inserts(body, inserts, where, log=None):
    """Ghost code keyed by a code-text anchor: (anchor_regex, ghost_text[, occurrence]) -- the ghost text
    is inserted right after the anchor (which must end a statement), or right before it when a 4th element "before" is given.  A LOST anchor does not stop the run:
    the hint is skipped, the loss is recorded (rule A0) and the function is verified without it; if it then
    fails, the failure only counts as a violation when a failing input is found (see check: anchor policy)."""
    for ins in inserts or []:
        pat, ghost = ins[0], ins[1]
        ms = list(re.finditer(pat, body))
        which = ins[2] if len(ins) > 2 else None
        if which is None:
            if len(ms) != 1:
                if log is not None:
                    log.append({"rule": "A0", "site": where, "pattern": pat,
                                "replacement": "(ghost-hint anchor matched %d times: hint skipped)" % len(ms), "count": 0,
                                "anchor_lost": True})
                    continue
                raise Unsupported("%s: ghost-insert anchor /%s/ matched %d times (expected 1) -- anchor lost"
                                  % (where, pat, len(ms)))
            m = ms[0]
        else:
            if which >= len(ms):
                raise Unsupported("%s: ghost-insert anchor /%s/ occurrence %d not found -- anchor lost"
                                  % (where, pat, which))
            m = ms[which]
        if len(ins) > 3 and ins[3] == "before":
            body = body[:m.start()] + ghost + "\n" + body[m.start():]
        else:
            body = body[:m.end()] + "\n" + ghost + "\n" + body[m.end():]
    return body


_KNOWN_FN_TEXT = [""]   # prelude + spec text of the unit being built (names declared there are never inlined)


def _split_args(text):
    """split a call's argument text at top-level commas"""
    out, depth, cur = [], 0, ""
    for ch in text:
        if ch in "([{":
            depth += 1
        elif ch in ")]}":
            depth -= 1
        if ch == "," and depth == 0:
            out.append(cur.strip())
            cur = ""
        else:
            cur += ch
    if cur.strip():
        out.append(cur.strip())
    return out


def _single_expression_helpers(src, masked, imp, methods):
    """Rule I1: private helper methods of the impl (not under contract, not declared by the unit) whose body is ONE expression
    and whose parameters are plain `name: Type` (no self): {name: (params, expression)}"""
    helpers = {}
    for m in re.finditer(r"\bfn\s+(\w+)", masked[imp.body_open:imp.end]):
        kpos = imp.body_open + m.start()
        if rsitems.depth_at(masked, kpos, imp.body_open) != 1:
            continue
        name = m.group(1)
        if name in methods or re.search(r"\bfn\s+%s\b" % re.escape(name), _KNOWN_FN_TEXT[0]):
            continue
        fitem = rsitems._item_from_kw(src, masked, kpos)
        sig = fitem.signature
        if re.search(r"\bpub\b", sig.split("fn")[0]) or "<" in sig.split("(")[0]:
            continue
        pm = re.search(r"\((.*)\)\s*(->.*)?$", sig, flags=re.S)
        if not pm:
            continue
        params = []
        ok = True
        has_self = False
        for k, prm in enumerate(_split_args(pm.group(1))):
            if k == 0 and re.match(r"^&?\s*self$", prm.strip()):
                has_self = True     # a method: called as `self.h(..)`, `self` stands for itself in the inlined expression
                continue
            mm = re.match(r"^(\w+)\s*:\s*\S.*$", prm, flags=re.S)
            if not mm or mm.group(1) in ("self", "mut"):
                ok = False
                break
            params.append(mm.group(1))
        body = rsitems.strip_attrs_and_docs(fitem.body).strip()
        inner = "\n".join(l for l in body[1:-1].split("\n") if not l.strip().startswith("//")).strip()
        if not ok or not inner or ";" in rsitems.mask(inner) or re.search(r"\b(let|return|loop|while|for)\b", rsitems.mask(inner)):
            continue
        helpers[name] = (params, inner, has_self)
    return helpers


def _inline_helpers(body, helpers, log, where):
    """Rule I1: a call `Self::h(a, b)` of a single-expression helper with simple arguments (paths, optionally behind & or *)
    is replaced by the helper's expression with the arguments substituted for the parameters."""
    for name, (params, expr, has_self) in helpers.items():
        pat = re.compile(r"\b%s%s\(((?:[^()]|\((?:[^()]|\([^()]*\))*\))*)\)" % ("self\\." if has_self else "Self::", re.escape(name)))
        def _repl(m):
            args = _split_args(m.group(1))
            if len(args) != len(params) or not all(re.match(r"^&?\s*(mut\s+)?\*?[\w.]+$", a) for a in args):
                return m.group(0)
            out = expr
            for prm, a in zip(params, args):
                out = re.sub(r"\b%s\b" % re.escape(prm), lambda _m, a=a: "\0%s\0" % a, out)
            out = out.replace("\0", "")
            log.append({"rule": "I1", "site": where, "pattern": "%s%s(%s)" % ("self." if has_self else "Self::", name, m.group(1)), "replacement": out, "count": 1})
            return "(" + out + ")"
        body = pat.sub(_repl, body)
    return body


def _transform_fn(item, spec, log, where, helpers=None):
    """item: rsitems.Item of a fn; spec: dict(contract, sig_rewrites, rewrites, loops, body_start, body_end, attrs)."""
    sig = item.signature
    body = item.body
    if helpers:
        body = _inline_helpers(body, helpers, log, where)
    # rule B1: names of locals that the ghost text mentions are READ from the code (`bind`: NAME -> regex with one group, or
    # (regex, default)); `${NAME}` in the contract, the loop specs and the inserts stands for the captured identifier, so a
    # renamed local does not orphan the hints
    binds = {}
    for key, pat in (spec.get("bind") or {}).items():
        default = None
        if isinstance(pat, (tuple, list)):
            pat, default = pat
        bm = re.search(pat, body)
        if bm:
            binds[key] = bm.group(1)
            if default is not None and bm.group(1) != default:
                log.append({"rule": "B1", "site": where, "pattern": pat, "replacement": "%s = %s" % (key, bm.group(1)), "count": 1})
        elif default is not None:
            binds[key] = default
            if not re.search(r"\b(let|for)\s+(mut\s+)?%s\b|[(|,]\s*%s\s*[),|:]" % (re.escape(default), re.escape(default)), body):
                log.append({"rule": "A0", "site": where, "pattern": pat, "replacement": "(local not found: %s assumed)" % default,
                            "count": 0, "anchor_lost": True})
    if binds:
        def _sub(t):
            if isinstance(t, str):
                for k, v in binds.items():
                    t = t.replace("${%s}" % k, v)
                return t
            if isinstance(t, dict):
                return {kk: _sub(vv) for kk, vv in t.items()}
            if isinstance(t, (list, tuple)):
                return type(t)(_sub(x) for x in t)
            return t
        spec = dict(spec)
        for fld in ("contract", "loops", "inserts", "body_start", "body_end", "rewrites"):
            if fld in spec:
                spec[fld] = _sub(spec[fld])
    sig = _apply_rewrites(sig, spec.get("sig_rewrites", []), log, where + " (signature)")
    body = _apply_rewrites(body, spec.get("rewrites", []), log, where + " (body)")
    body = _insert_loop_specs(body, spec.get("loops"), log, where)
    body = _apply_inserts(body, spec.get("inserts"), where, log)
    if spec.get("body_start"):
        body = "{\n" + spec["body_start"] + "\n" + body[1:]
    if spec.get("body_end"):
        k = body.rstrip().rfind("}")
        body = body[:k] + "\n" + spec["body_end"] + "\n" + body[k:]
    if spec.get("drop_body"):
        log.append({"rule": "X3", "site": where, "pattern": "body", "replacement": "external_body", "count": 1})
        text = "#[verifier::external_body]\n" + sig + "\n" + spec.get("contract", "") + "\n{ unimplemented!() }"
    else:
        text = sig + "\n" + spec.get("contract", "") + "\n" + body
    if spec.get("attrs"):
        text = spec["attrs"] + "\n" + text
    return text


def _extract_impl(src, imp, it, log, where):
    """Whole impl block with its real header and associated items; methods listed in it["methods"]
    get their contracts spliced in, all other methods are omitted (rule X8, logged)."""
    masked = rsitems.mask(src)
    header = src[imp.kw_pos:imp.body_open + 1]
    header = _apply_rewrites(header, it.get("header_rewrites", []), log, where + " (impl header)")
    out = [header]
    pos = imp.body_open + 1
    methods = it["methods"]
    seen = set()
    dropped = []
    helpers = _single_expression_helpers(src, masked, imp, methods)
    for m in re.finditer(r"\bfn\s+(\w+)", masked[imp.body_open:imp.end]):
        kpos = imp.body_open + m.start()
        if rsitems.depth_at(masked, kpos, imp.body_open) != 1:
            continue
        fitem = rsitems._item_from_kw(src, masked, kpos)
        name = m.group(1)
        between = src[pos:fitem.start]
        # keep associated types / consts between methods (strip attributes and comments)
        keep = "\n".join(l for l in rsitems.strip_attrs_and_docs(between).split("\n")
                         if l.strip() and not l.strip().startswith("//"))
        if keep.strip() and not it.get("drop_assoc_items"):
            out.append(keep)
        if name in methods:
            seen.add(name)
            out.append(_transform_fn(fitem, methods[name], log, where + "::" + name, helpers))
        elif it.get("keep_others"):
            out.append(fitem.text_no_attrs)
        else:
            dropped.append(name)
        pos = fitem.end
    missing = set(m for m in methods if not methods[m].get("optional")) - seen
    if missing:
        raise Unsupported("anchor lost: methods %s not found in %s" % (sorted(missing), where))
    if dropped:
        log.append({"rule": "X8", "site": where, "pattern": "methods not under contract in this unit",
                    "replacement": "omitted: " + ", ".join(dropped), "count": len(dropped)})
    out.append("}")
    return "\n".join(out)


def _instantiate_macro(src, it, log, where):
    """Rule M1: a function generated by a `macro_rules!` template is obtained by substituting the arguments of the REAL
    invocation (found by its first argument) for the `$variables` of the REAL template -- both read from the snapshot.
    Only single-arm templates with `$x:tt`-style parameters are supported; anything else is exit 2."""
    masked = rsitems.mask(src)
    m = re.search(r"\bmacro_rules!\s+%s\s*\{" % re.escape(it["macro"]), masked)
    if not m:
        raise Unsupported("anchor lost: macro_rules! %s" % it["macro"])
    open_pos = masked.index("{", m.start())
    close_pos = rsitems.match_brace(masked, open_pos)
    body = src[open_pos + 1:close_pos]
    mb = rsitems.mask(body)
    # first arm: ( PATTERN ) => { TEMPLATE }
    p_open = mb.index("(")
    p_close = rsitems.match_brace(mb, p_open)
    pattern = body[p_open + 1:p_close]
    arrow = mb.index("=>", p_close)
    t_open = mb.index("{", arrow)
    t_close = rsitems.match_brace(mb, t_open)
    template = body[t_open + 1:t_close]
    if "=>" in mb[t_close:] and re.search(r"\(", mb[t_close:]):
        # further arms exist: only accept if the invocation matches the first arm's arity (checked below)
        pass
    # optional groups `$( ... )?` (one level): their parameters may be absent from the invocation
    optional = []
    for om in re.finditer(r"\$\((.*?)\)\?", pattern, flags=re.S):
        optional += re.findall(r"\$(\w+)\s*:\s*\w+", om.group(1))
    flat_pattern = re.sub(r"\$\((.*?)\)\?", r"\1", pattern, flags=re.S)
    params = re.findall(r"\$(\w+)\s*:\s*\w+", flat_pattern)
    if "$(" in flat_pattern:
        raise Unsupported("rule M1: macro %s has a repetition in its pattern" % it["macro"])
    # the real invocation whose first argument is the wanted name
    inv = None
    for im in re.finditer(r"\b%s!\s*\(([^;]*?)\)\s*;" % re.escape(it["macro"]), masked):
        args = [a.strip() for a in src[im.start(1):im.end(1)].split(",")]
        if args and args[0] == it["name"]:
            inv = args
            break
    if inv is None:
        raise Unsupported("anchor lost: invocation %s!(%s, ..)" % (it["macro"], it["name"]))
    required = [q for q in params if q not in optional]
    if not (len(required) <= len(inv) <= len(params)) or params[:len(required)] != required:
        raise Unsupported("rule M1: %s!(%s) has %d arguments, the template %d parameters (%d optional)"
                          % (it["macro"], it["name"], len(inv), len(params), len(optional)))
    present = params[:len(inv)]
    text = template

    def _group(gm):
        names = re.findall(r"\$(\w+)\b", gm.group(1))
        return gm.group(1) if names and all(n in present for n in names) else ""
    text = re.sub(r"\$\(((?:[^()]|\([^()]*\))*?)\)\?", _group, text, flags=re.S)
    for pname, arg in sorted(zip(present, inv), key=lambda z: -len(z[0])):
        text = re.sub(r"\$%s\b" % re.escape(pname), arg, text)
    if "$" in rsitems.mask(text):
        raise Unsupported("rule M1: unsubstituted macro variable in %s!(%s)" % (it["macro"], it["name"]))
    log.append({"rule": "M1", "site": where, "pattern": "macro_rules! %s" % it["macro"],
                "replacement": "instantiated with (%s)" % ", ".join(inv), "count": 1})
    return rsitems.strip_attrs_and_docs(text)


def _auto_pure_fns(snapshot, it, unit, log):
    """Rule P1: free helper predicates `fn NAME(c: char) -> bool { EXPR }` of the file that the unit does not list itself
    (a maintainer may extract one at any time) are taken over with the mechanical contract `ensures r == NAME_spec(c)`, where
    NAME_spec is the same expression as a spec function (calls of other predicates replaced by their spec counterparts).
    Only single-expression bodies qualify; anything else is left out (the front end then reports the unresolved name: exit 2)."""
    path = os.path.join(snapshot, it["file"])
    if not os.path.exists(path):
        return ""
    src = open(path).read()
    masked = rsitems.mask(src)
    listed = set()
    for other in unit["items"]:
        if other.get("kind") == "fn":
            listed.add(other["name"])
    spec_of = dict(it.get("spec_names", {}))
    found = []
    for m in re.finditer(r"(?m)^(?:pub(?:\([a-z]+\))? )?fn (\w+)\((\w+): char\) -> bool\s*\{", masked):
        name, par = m.group(1), m.group(2)
        if name in listed or rsitems.depth_at(masked, m.start()) != 0:
            continue
        open_pos = masked.index("{", m.start())
        close_pos = rsitems.match_brace(masked, open_pos)
        body = rsitems.strip_attrs_and_docs(src[open_pos + 1:close_pos]).strip()
        mb = rsitems.mask(body)
        if ";" in mb or re.search(r"\b(let|loop|while|for|return)\b", mb):
            continue
        found.append((name, par, body))
        spec_of[name] = name + "_spec"
    out = []
    for name, par, body in found:
        spec_body = body
        for ex, sp in spec_of.items():
            spec_body = re.sub(r"\b%s\(" % re.escape(ex), sp + "(", spec_body)
        if any(re.search(r"\b%s\(" % re.escape(ex), spec_body) for ex in listed):
            # calls an exec fn of the unit that has no spec counterpart here: taken over without a contract
            out.append("pub fn %s(%s: char) -> (r: bool)\n{ %s }\n" % (name, par, body))
            log.append({"rule": "P1", "site": "%s::%s" % (it["file"], name), "pattern": "fn %s(%s: char) -> bool { EXPR }" % (name, par),
                        "replacement": "(no contract: calls an exec predicate without spec counterpart)", "count": 1})
            continue
        out.append("pub open spec fn %s_spec(%s: char) -> bool { %s }\npub fn %s(%s: char) -> (r: bool)\n    ensures r == %s_spec(%s),\n{ %s }\n"
                   % (name, par, spec_body, name, par, name, par, body))
        log.append({"rule": "P1", "site": "%s::%s" % (it["file"], name), "pattern": "fn %s(%s: char) -> bool { EXPR }" % (name, par),
                    "replacement": "ensures r == %s_spec(%s)" % (name, par), "count": 1})
    return "\n".join(out)


def _extract_item(snapshot, it, log):
    path = os.path.join(snapshot, it["file"])
    if not os.path.exists(path):
        raise Unsupported("anchor lost: file %s" % it["file"])
    src = open(path).read()
    kind = it["kind"]
    where = "%s::%s" % (it["file"], it.get("name"))
    for req in it.get("require_source", []):
        # a rewrite that mirrors a macro definition is only faithful while that definition reads as expected
        if not re.search(req, src, flags=re.S):
            raise Unsupported("anchor lost: %s no longer contains /%s/ (a rewrite rule of this unit mirrors it)" % (it["file"], req))
    if kind == "macro_fn":
        text = _instantiate_macro(src, it, log, where)
        item = rsitems.find_fn(text, it["name"])
        line = src.count("\n", 0, src.find("macro_rules! %s" % it["macro"])) + 1
        return _transform_fn(item, it, log, where), line
    try:
        if kind == "fn":
            item = rsitems.find_fn(src, it["name"], it.get("impl"))
        elif kind == "impl":
            item = rsitems.find_impl(src, it["impl"], it.get("nth", 0))
        else:
            item = rsitems.find_item(src, kind, it["name"])
    except rsitems.AnchorLost as e:
        raise Unsupported("anchor lost: %s" % e)
    origin_line = item.line
    if kind in ("impl", "trait") and "methods" in it:
        return _extract_impl(src, item, it, log, where), origin_line
    csc = it.get("call_site_check")
    if csc:
        cs_src = open(os.path.join(snapshot, csc["file"])).read()
        if not re.search(csc["pattern"], cs_src):
            raise Unsupported("rule X4: call site /%s/ not found in %s -- the instantiation is no longer the real one"
                              % (csc["pattern"], csc["file"]))
        log.append({"rule": "X4-callsite", "site": csc["file"], "pattern": csc["pattern"], "replacement": "(checked)", "count": 1})
    if kind == "fn":
        text = _transform_fn(item, it, log, where)
    else:
        text = rsitems.strip_attrs_and_docs(item.text)
        if text != item.text:
            log.append({"rule": "X1", "site": where, "pattern": "#[..] / ///", "replacement": "", "count": 1})
        text = _apply_rewrites(text, it.get("rewrites", []), log, where)
        pre = it.get("attrs", "")
        if pre:
            text = pre + "\n" + text
    return text, origin_line


def _widen_visibility(text, log, where):
    """Rule X9: `pub(crate)` / `pub(self)` / `pub(super)` -> `pub` (single-file unit; Verus rejects
    auto-generated `open spec` helpers on restricted-visibility types). No semantic effect."""
    new, n = re.subn(r"\bpub\s*\((crate|self|super)\)", "pub", text)
    if n:
        log.append({"rule": "X9", "site": where, "pattern": "pub(crate|self|super)", "replacement": "pub", "count": n})
    # private items / methods of inherent impls become `pub` too (single-file unit: no effect on meaning)
    lines = new.split("\n")
    in_trait_impl = bool(re.match(r"\s*impl\b[^{]*\bfor\b", new))
    k = 0
    for i, ln in enumerate(lines):
        m = re.match(r"^(\s*)(enum|struct|type|fn)\s+\w+", ln)
        if m and not in_trait_impl:
            # do not touch nested fns inside bodies: only depth 0 (items) or depth 1 inside an impl block
            prefix = "\n".join(lines[:i])
            depth = rsitems.mask(prefix).count("{") - rsitems.mask(prefix).count("}")
            is_impl = bool(re.match(r"\s*impl\b", new))
            if depth == (1 if is_impl else 0):
                lines[i] = m.group(1) + "pub " + ln[len(m.group(1)):]
                k += 1
    # private named fields of an extracted struct
    if re.match(r"\s*(#\[[^\]]*\]\s*)*pub\s+struct\b", "\n".join(lines)):
        depth = 0
        for i, ln in enumerate(lines):
            if depth == 1 and re.match(r"^\s*[a-z_]\w*\s*:", ln):
                ind = re.match(r"^(\s*)", ln).group(1)
                lines[i] = ind + "pub " + ln[len(ind):]
                k += 1
            ml = rsitems.mask(ln)
            depth += ml.count("{") - ml.count("}")
    if k:
        log.append({"rule": "X9", "site": where, "pattern": "private item", "replacement": "pub", "count": k})
    return "\n".join(lines)


def build_unit(snapshot, unit):
    """Return (text, linemap, rule_log, functions_under_contract).
    linemap: list of (first_line, last_line, label, origin) for the generated file."""
    log = []
    _KNOWN_FN_TEXT[0] = unit.get("prelude", "") + "\n" + unit.get("spec", "")
    chunks = []   # (label, text, origin)
    chunks.append(("header", unit.get("header", "") + "\nuse vstd::prelude::*;\n" + unit.get("uses", "") + "\nverus! {\n", None))
    chunks.append(("prelude", unit.get("prelude", ""), None))
    fns = []
    for it in unit["items"]:
        if it["kind"] == "raw":
            chunks.append(("raw", it["text"], None))
            continue
        if it["kind"] == "auto_pure_fns":
            text = _auto_pure_fns(snapshot, it, unit, log)
            if text:
                chunks.append(("auto pure helper fns of %s" % it["file"], text, "%s:0" % it["file"]))
            continue
        text, line = _extract_item(snapshot, it, log)
        text = _widen_visibility(text, log, "%s::%s" % (it["file"], it.get("name") or it.get("impl")))
        label = it.get("label") or ("%s %s" % (it["kind"], it.get("name") or it.get("impl")))
        chunks.append((label, text, "%s:%d" % (it["file"], line)))
        if it["kind"] in ("fn", "macro_fn") and not it.get("drop_body"):
            fns.append({"fn": it["name"], "file": it["file"], "line": line, "impl": it.get("impl"),
                        "contract": " ".join(it.get("contract", "").split()),
                        "raw_contract": it.get("contract", ""), "props": it.get("props")})
        if it["kind"] in ("impl", "trait") and "methods" in it:
            for mname, ms in it["methods"].items():
                if ms.get("drop_body"):
                    continue
                if ms.get("optional") and not re.search(r"\bfn\s+%s\b" % re.escape(mname), text):
                    continue
                fns.append({"fn": mname, "file": it["file"], "line": line, "impl": it.get("impl"),
                            "contract": " ".join(ms.get("contract", "").split()),
                            "raw_contract": ms.get("contract", ""), "props": ms.get("props")})
    chunks.append(("spec", unit.get("spec", ""), None))
    chunks.append(("footer", "\n} // verus!\nfn main() {}\n", None))
    out = []
    linemap = []
    line = 1
    for label, text, origin in chunks:
        if not text.endswith("\n"):
            text += "\n"
        n = text.count("\n")
        linemap.append((line, line + n - 1, label, origin))
        out.append(text)
        line += n
    return "".join(out), linemap, log, fns


def label_for_line(linemap, line):
    for a, b, label, origin in linemap:
        if a <= line <= b:
            return label, origin
    return "?", None
