"""Apply a seeded change to /repo, run the named checks, undo.  usage: python3 -m vf.seedtest <seed-dir> <prop> [<prop> ...]
Never commits anything in /repo; refuses to run when /repo has uncommitted changes."""
import json
import os
import subprocess
import sys
import time

seed, props = os.path.abspath(sys.argv[1]), sys.argv[2:]
patch = os.path.join(seed, "patch.diff")
st = subprocess.run(["git", "-C", "/repo", "status", "--porcelain"], capture_output=True, text=True).stdout.strip()
if st:
    sys.exit("refusing: /repo has uncommitted changes:\n" + st)
subprocess.run(["git", "-C", "/repo", "apply", patch], check=True)
results = {}
try:
    for p in props:
        t0 = time.time()
        r = subprocess.run(["./check", p], cwd="/verif", capture_output=True, text=True)
        lines = [l for l in r.stdout.split("\n") if l.startswith(("VIOLATION", "INFRA", "OK", "KNOWN", "  failed"))]
        results[p] = {"exit": r.returncode, "wall_s": round(time.time() - t0, 1), "lines": lines[:12]}
        print(p, "exit", r.returncode, "%.0fs" % (time.time() - t0))
        for l in lines[:12]:
            print("   ", l[:300])
finally:
    subprocess.run(["git", "-C", "/repo", "checkout", "--", "."], check=True)
out = os.path.join(seed, "check_results.json")
merged = json.load(open(out)) if os.path.exists(out) else {}
merged.update(results)
json.dump(merged, open(out, "w"), indent=1, sort_keys=True)
